package h

import (
	"strings"

	z "github.com/Oudwins/zog"
	"github.com/Oudwins/zog/parsers/zjson"
	"github.com/Oudwins/zog/zhttp"
	v "github.com/Oudwins/zog/zzverif"
)

// JSON documents with nested records whose json tags differ from the schema keys, read through
// zjson.Decode and zhttp.Request, by a Struct root and by a Ptr(Struct) root; sibling records
// (one of them possibly missing, null or {}), a list of records and a record behind a pointer.
// Shared by C02 C03 C04 C05 C09 C10 C12 C14 C20: each asserts its own property on the outcome.
//
// Every zip leaf is Int().Required().GT(g) with g symbolic; every city leaf String().Required().
// The documents are concrete (the json decoder runs on concrete bytes); which zips fail follows
// from g. The iteration order of the three top-level schema keys and of the two leaf keys of
// every record is a schedule choice point.

type jrAddr struct {
	ZipCode int    `json:"zip_code"`
	City    string `json:"city"`
}
type jrUser struct {
	Addr jrAddr   `json:"addr_rec"`
	Work jrAddr   `json:"work_rec"`
	Kids []jrAddr `json:"kid_recs"`
	Alt  *jrAddr  `json:"alt_rec"`
}

const (
	jrPresent = iota
	jrMissing
	jrNull
	jrEmpty
)

type jrCase struct {
	g       int
	layout  int // 0: addr, work, kids   1: addr, alt (behind a pointer), kids
	ptrRoot bool
	http    bool
	how     int // how the second record (work / alt) appears in the document
	first   bool
	zips    [4]int // addr, second, kids[0], kids[1]
	called  int
	tfOn    bool
	catchOn bool
	optional bool // C03: the leaves are optional, an unread leaf is silent
}

func jrDraw() *jrCase {
	c := &jrCase{g: v.Int("g"), layout: v.Choice("layout", 2), ptrRoot: v.Choice("root", 2) == 1, http: v.Choice("via", 2) == 1,
		how: v.Choice("second", 4), zips: [4]int{5, 6, 7, 0}}
	return c
}

func (c *jrCase) leaf() *z.StructSchema {
	zip := z.Int().Required().GT(c.g)
	if c.optional {
		zip = z.Int().GT(c.g)
	}
	if c.catchOn {
		zip = zip.Catch(99)
	}
	if c.tfOn {
		zip = zip.TestFunc(func(p any, ctx z.Ctx) bool { c.called++; return true })
	}
	return z.Struct(z.Schema{"zipCode": zip}) // (one key: the order choices are the three top-level keys)
}

func (c *jrCase) schema() *z.StructSchema {
	if c.layout == 0 {
		return z.Struct(z.Schema{"addr": c.leaf(), "work": c.leaf(), "kids": z.Slice(c.leaf())})
	}
	return z.Struct(z.Schema{"addr": c.leaf(), "alt": z.Ptr(c.leaf()), "kids": z.Slice(c.leaf())})
}

func (c *jrCase) doc() string {
	rec := func(zip string, city string) string { return `{"zip_code":` + zip + `,"city":"` + city + `"}` }
	second := "work_rec"
	if c.layout == 1 {
		second = "alt_rec"
	}
	parts := []string{`"addr_rec":` + rec("5", "a"), `"kid_recs":[` + rec("7", "k") + `,` + rec("0", "l") + `]`}
	var s string
	switch c.how {
	case jrPresent:
		s = `"` + second + `":` + rec("6", "w")
	case jrNull:
		s = `"` + second + `":null`
	case jrEmpty:
		s = `"` + second + `":{}`
	}
	if s != "" {
		if c.first {
			parts = append([]string{s}, parts...)
		} else {
			parts = append(parts, s)
		}
	}
	return "{" + strings.Join(parts, ",") + "}"
}

// run executes the call; u is the destination the call filled
func (c *jrCase) run() (z.ZogIssueMap, *jrUser) {
	var src any
	if c.http {
		src = zhttp.Request(c11Request("POST", "application/json", c.doc(), ""))
	} else {
		src = zjson.Decode(strings.NewReader(c.doc()))
	}
	if c.ptrRoot {
		var u *jrUser
		errs := z.Ptr(c.schema()).Parse(src, &u)
		return errs, u
	}
	u := &jrUser{}
	errs := c.schema().Parse(src, u)
	return errs, u
}

// secondAbsent: the second record's leaves have no value to read
func (c *jrCase) secondAbsent() bool { return c.how != jrPresent }

// want: the reference issues of the records that are present in the document, path -> code.
// (The leaf of a record that is missing, null or {}: see absentIssues / absentKey.)
func (c *jrCase) want() map[string]string {
	w := map[string]string{}
	if !(5 > c.g) {
		w["addr_rec.zip_code"] = "gt"
	}
	if !(7 > c.g) {
		w["kid_recs[0].zip_code"] = "gt"
	}
	// a zero in a JSON document is a present value for Parse: Required is satisfied, GT judges it
	if !(0 > c.g) {
		w["kid_recs[1].zip_code"] = "gt"
	}
	if c.how == jrPresent && !(6 > c.g) {
		if c.layout == 0 {
			w["work_rec.zip_code"] = "gt"
		} else {
			w["alt_rec.zip_code"] = "gt"
		}
	}
	return w
}

// issuesOK: the issue map is exactly want() plus the absent-record issues
func (c *jrCase) issuesOK(errs z.ZogIssueMap) bool {
	w := c.want()
	seen := 0
	absent := 0
	for k, l := range errs {
		if k == "$first" {
			continue
		}
		if code, ok := w[k]; ok {
			if len(l) != 1 || l[0].Code != code {
				return false
			}
			seen++
			continue
		}
		if c.absentIssues() == 1 && k == c.absentKey() {
			for _, i := range l {
				if i.Code != "required" {
					return false
				}
				absent++
			}
			continue
		}
		return false
	}
	if seen != len(w) {
		return false
	}
	return absent == c.absentIssues()
}

// absentKey: the leaf of a record that is missing, null or {} in the document is reported under
// the keys a present record would have: the json tags, at both depths
func (c *jrCase) absentKey() string {
	if c.layout == 0 {
		return "work_rec.zip_code"
	}
	return "alt_rec.zip_code"
}

// absentIssues: the required issues of the second record's leaf when the document has no value
// for it: a Struct's leaf is required whatever the record looks like; a record behind a pointer
// exists, with an absent leaf, only when the document says {}
func (c *jrCase) absentIssues() int {
	if c.optional {
		return 0
	}
	if (c.layout == 0 && c.secondAbsent()) || (c.layout == 1 && c.how == jrEmpty) {
		return 1
	}
	return 0
}

// valuesOK: every leaf that was present and valid holds the document's value
func (c *jrCase) valuesOK(u *jrUser) bool {
	if u == nil {
		return false
	}
	ok := u.Addr.ZipCode == 5 && len(u.Kids) == 2 && u.Kids[0].ZipCode == 7 && u.Kids[1].ZipCode == 0
	if c.how == jrPresent {
		if c.layout == 0 {
			ok = ok && u.Work.ZipCode == 6
		} else {
			ok = ok && u.Alt != nil && u.Alt.ZipCode == 6
		}
	} else if c.layout == 1 && c.how != jrEmpty {
		ok = ok && u.Alt == nil
	}
	_ = c.first
	return ok
}

// jrCheck: the one cell shared by the properties; prop is the property id used in the labels
func jrCheck(prop string) {
	v.MapOrderChoice(true)
	c := jrDraw()
	if prop == "C12" {
		c.tfOn = true
	}
	if prop == "C03" {
		c.optional = true
	}
	if prop == "C05" {
		c.catchOn = true
	}
	errs, u := c.run()
	if errs != nil {
		v.Cover("issues")
		v.Cover("some-issues")
	} else {
		v.Cover("no-issues")
	}
	switch prop {
	case "C01":
		if errs == nil {
			v.Assert(c.valuesOK(u) && 0 > c.g && len(c.want()) == 0 && c.absentIssues() == 0, "C01:constraint-not-enforced")
		}
	case "C02":
		v.Assert(c.issuesOK(errs), "C02:issues-differ-from-violations")
		v.Assert((errs == nil) == (len(c.want()) == 0 && c.absentIssues() == 0), "C02:nil-iff-no-violation")
	case "C03":
		if errs == nil {
			v.Assert(c.valuesOK(u), "C03:value-differs-from-input")
		}
	case "C04":
		// the zero in kid_recs[1] is a present value: never "required"; a missing/null record behind
		// a pointer stays nil
		for k, l := range errs {
			for _, i := range l {
				if k != "$first" && i.Code == "required" {
					v.Assert(c.absentIssues() == 1 && (strings.HasPrefix(k, "work_rec.") || strings.HasPrefix(k, "alt_rec.")), "C04:present-value-treated-as-absent")
				}
			}
		}
		v.Assert(c.issuesOK(errs), "C04:absent-value-handling")
	case "C10":
		c10WellFormed(errs)
		v.Assert(c.issuesOK(errs), "C10:issue-not-under-its-source-key")
	case "C12":
		// the leaf's test function ran once per present zip leaf whose earlier tests... (tests all run)
		n := 3
		if c.how == jrPresent {
			n = 4
		}
		v.Assert(c.called == n, "C12:test-call-count")
	case "C05":
		// catching leaves: never an issue; the document's value where it passes, the catch value where
		// it fails or is absent
		v.Assert(errs == nil, "C05:catch-node-reported-issue")
		pick := func(zip int) int {
			if zip > c.g {
				return zip
			}
			return 99
		}
		ok := u != nil && u.Addr.ZipCode == pick(5) && len(u.Kids) == 2 && u.Kids[0].ZipCode == pick(7) && u.Kids[1].ZipCode == pick(0)
		if ok && c.layout == 0 {
			if c.how == jrPresent {
				ok = u.Work.ZipCode == pick(6)
			} else {
				ok = u.Work.ZipCode == 99
			}
		} else if ok {
			switch c.how {
			case jrPresent:
				ok = u.Alt != nil && u.Alt.ZipCode == pick(6)
			case jrEmpty:
				ok = u.Alt != nil && u.Alt.ZipCode == 99
			default:
				ok = u.Alt == nil
			}
		}
		v.Assert(ok, "C05:catch-value-not-used-or-used-needlessly")
	case "C09":
		v.Assert(c.issuesOK(errs) && (len(errs) > 0 || c.valuesOK(u)), "C09:result-depends-on-order")
	case "C14":
		v.Assert(c.issuesOK(errs) && (len(errs) > 0 || c.valuesOK(u)), "C14:front-ends-differ")
	case "C20":
		v.Assert(c.issuesOK(errs), "C20:verdict-differs")
	}
}
