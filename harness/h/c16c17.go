package h

import (
	"time"
	"regexp"

	z "github.com/Oudwins/zog"
	v "github.com/Oudwins/zog/zzverif"
)

func init() {
	Registry["C16"] = C16_Run
	Registry["C17"] = C17_Run
}

// ---------------------------------------------------------------------------------------
// C16 — Pick, Omit, Extend and Merge build independent schemas with set semantics.
// A derivation expression is built over a base with fields a,b,c and k struct tests; tests
// and transforms are then added to derived schemas in various orders; every schema must
// behave like its hand-written equivalent, on symbolic field inputs.

type c16Dest struct {
	A, B, C, D int
}

// c16Logger builds PostTransforms that differ in their captured variables only: every closure it
// returns has the same code pointer (noinline: an inlined factory gets a copy of the literal per call site)
//
//go:noinline
func c16Logger(log *string, tag string) z.PostTransform {
	return func(p any, ctx z.Ctx) error { *log += tag; return nil }
}

func c16Test(code string) z.Test {
	return z.TestFunc(code, func(val any, ctx z.Ctx) bool { return false })
}

// a field schema failing iff its input is <= the field's threshold
func c16Field(th int) *z.NumberSchema[int] { return z.Int().GT(th) }

// observation of a struct schema on the input: issue codes per key in order + dest
func c16Obs(s *z.StructSchema, in map[string]any) string {
	var d c16Dest
	errs := s.Parse(in, &d)
	out := ""
	for _, k := range []string{"a", "b", "c", "d", "$root"} {
		out += k + "["
		for _, e := range errs[k] {
			out += e.Code + ","
		}
		out += "]"
	}
	out += v.Sprint(len(errs))
	return out
}

func c16Same(got, want *z.StructSchema, in map[string]any, d1, d2 *c16Dest) bool {
	e1 := got.Parse(in, d1)
	e2 := want.Parse(in, d2)
	return v.And(sameMapsExcept(e1, e2, nil), v.And(v.And(d1.A == d2.A, d1.B == d2.B), v.And(d1.C == d2.C, d1.D == d2.D)))
}

func C16_Jobs() []string {
	var out []string
	for _, op := range []string{"pick", "omit", "extend", "merge", "merge3", "transforms", "pick-map", "omit-map", "chain", "merge-sizes", "merge-nested", "pick-empty", "key-spelling", "derive-nothing", "merge-same-literal"} {
		for k := 0; k <= 3+3*v.Tier(); k++ { // number of struct tests on the base (spare capacity varies)
			out = append(out, op+"/t"+string(rune('0'+k)))
		}
	}
	return out
}
func C16_Covers() []string { return []string{"checked"} }

func C16_Run(job string) {
	op, ts, _, _ := split3(job)
	k := int(ts[1] - '0')
	v.MapOrderChoice(false) // field visit order is C09's subject; here it only multiplies paths
	ta, tb, tc, td := v.Int("ta"), v.Int("tb"), v.Int("tc"), v.Int("td")
	in := map[string]any{"a": v.Int("a"), "b": v.Int("b"), "c": v.Int("c"), "d": v.Int("d")}
	mkBase := func() *z.StructSchema {
		s := z.Struct(z.Schema{"a": c16Field(ta), "b": c16Field(tb), "c": c16Field(tc)})
		for i := 0; i < k; i++ {
			s = s.Test(c16Test("base" + string(rune('0'+i))))
		}
		return s
	}
	// hand-written equivalents are built from scratch with the same field schemas and tests
	hand := func(keys []string, extra ...string) *z.StructSchema {
		sh := z.Schema{}
		for _, key := range keys {
			switch key {
			case "a":
				sh[key] = c16Field(ta)
			case "b":
				sh[key] = c16Field(tb)
			case "c":
				sh[key] = c16Field(tc)
			case "d":
				sh[key] = c16Field(td)
			case "a2":
				sh["a"] = c16Field(td) // overriding field
			}
		}
		s := z.Struct(sh)
		for i := 0; i < k; i++ {
			s = s.Test(c16Test("base" + string(rune('0'+i))))
		}
		for _, c := range extra {
			s = s.Test(c16Test(c))
		}
		return s
	}
	base := mkBase()
	if v.Choice("base-used-first", 2) == 1 {
		// the operand has already been executed (both modes) when the derivation happens
		d0 := c16Dest{A: 1, B: 1, C: 1}
		base.Parse(in, &d0)
		base.Validate(&d0)
	}
	var d1, d2 c16Dest
	check := func(got, want *z.StructSchema, label string) {
		v.Assert(c16Same(got, want, in, &d1, &d2), label)
	}
	switch op {
	case "pick":
		x := base.Pick("a", "b").Test(c16Test("x"))
		y := base.Pick("a").Test(c16Test("y")) // a second derivation from the same base
		base2 := base.Test(c16Test("late"))    // and the base itself is extended afterwards
		check(x, hand([]string{"a", "b"}, "x"), "C16:pick-differs-from-handwritten")
		check(y, hand([]string{"a"}, "y"), "C16:derived-schemas-influence-each-other")
		check(base2, hand([]string{"a", "b", "c"}, "late"), "C16:derivation-modified-its-operand")
	case "pick-map":
		x := base.Pick(map[string]bool{"a": true, "b": false, "c": true})
		check(x, hand([]string{"a", "c"}), "C16:pick-differs-from-handwritten")
		check(base, hand([]string{"a", "b", "c"}), "C16:derivation-modified-its-operand")
	case "omit":
		x := base.Omit("c").Test(c16Test("x"))
		y := base.Omit("a", "b").Test(c16Test("y"))
		check(x, hand([]string{"a", "b"}, "x"), "C16:omit-differs-from-handwritten")
		check(y, hand([]string{"c"}, "y"), "C16:derived-schemas-influence-each-other")
		check(base, hand([]string{"a", "b", "c"}), "C16:derivation-modified-its-operand")
	case "omit-map":
		// each argument is applied on its own: a later false entry does not undo an earlier omission
		y1 := base.Omit("a", map[string]bool{"a": false})
		check(y1, hand([]string{"b", "c"}), "C16:omit-differs-from-handwritten")
		y2 := base.Omit(map[string]bool{"b": true}, map[string]bool{"b": false, "c": true})
		check(y2, hand([]string{"a"}), "C16:omit-differs-from-handwritten")
		y3 := base.Pick("a", map[string]bool{"a": false, "b": true})
		check(y3, hand([]string{"a", "b"}), "C16:pick-differs-from-handwritten")
		x := base.Omit(map[string]bool{"a": true, "b": false})
		check(x, hand([]string{"b", "c"}), "C16:omit-differs-from-handwritten")
		check(base, hand([]string{"a", "b", "c"}), "C16:derivation-modified-its-operand")
	case "extend":
		x := base.Extend(z.Schema{"d": c16Field(td), "a": c16Field(td)}).Test(c16Test("x"))
		y := base.Extend(z.Schema{"d": c16Field(td)}).Test(c16Test("y"))
		check(x, hand([]string{"a2", "b", "c", "d"}, "x"), "C16:extend-differs-from-handwritten")
		check(y, hand([]string{"a", "b", "c", "d"}, "y"), "C16:derived-schemas-influence-each-other")
		check(base, hand([]string{"a", "b", "c"}), "C16:derivation-modified-its-operand")
	case "merge":
		other := z.Struct(z.Schema{"d": c16Field(td), "a": c16Field(td)}).Test(c16Test("o0"))
		x := base.Merge(other).Test(c16Test("x"))
		y := base.Merge(other).Test(c16Test("y"))
		check(x, hand([]string{"a2", "b", "c", "d"}, "o0", "x"), "C16:merge-differs-from-handwritten")
		check(y, hand([]string{"a2", "b", "c", "d"}, "o0", "y"), "C16:derived-schemas-influence-each-other")
		check(base, hand([]string{"a", "b", "c"}), "C16:derivation-modified-its-operand")
		wantOther := z.Struct(z.Schema{"d": c16Field(td), "a": c16Field(td)}).Test(c16Test("o0"))
		check(other, wantOther, "C16:derivation-modified-its-operand")
	case "merge-nested":
		// a key conflict is resolved for the whole field: the later operand's nested struct replaces
		// the earlier one (no merging of their fields or tests)
		type N struct{ A, B int }
		var dn1, dn2 struct {
			In N
			C  int
		}
		left := z.Struct(z.Schema{"in": z.Struct(z.Schema{"a": c16Field(ta).Required(), "b": c16Field(tb)}).Test(c16Test("left-inner")), "c": c16Field(tc)})
		right := z.Struct(z.Schema{"in": z.Struct(z.Schema{"b": c16Field(td)})})
		want := z.Struct(z.Schema{"in": z.Struct(z.Schema{"b": c16Field(td)}), "c": c16Field(tc)})
		nin := map[string]any{"in": map[string]any{"b": in["b"]}, "c": in["c"]}
		for _, m := range []*z.StructSchema{left.Merge(right), z.Struct(z.Schema{}).Merge(left, right)} {
			e1 := m.Parse(nin, &dn1)
			e2 := want.Parse(nin, &dn2)
			v.Assert(sameMapsExcept(e1, e2, nil) && len(e1) == len(e2) && dn1.In.B == dn2.In.B && dn1.In.A == dn2.In.A && dn1.C == dn2.C, "C16:merge-differs-from-handwritten")
		}
	case "key-spelling":
		// keys are compared exactly: a name that differs from a key only in the case of a letter
		// selects nothing (string and map arguments)
		check(base.Omit("A", "B"), hand([]string{"a", "b", "c"}), "C16:omit-differs-from-handwritten")
		check(base.Omit(map[string]bool{"C": true}), hand([]string{"a", "b", "c"}), "C16:omit-differs-from-handwritten")
		// (picking a key the schema does not have is a construction error, not exercised here)
		check(base.Pick(map[string]bool{"A": false, "c": true}), hand([]string{"c"}), "C16:pick-differs-from-handwritten")
		check(base.Omit("a ", " a", "aa"), hand([]string{"a", "b", "c"}), "C16:omit-differs-from-handwritten")
	case "derive-nothing":
		// a derivation that changes nothing still yields a schema of its own: what is added to it
		// later does not reach the base, and vice versa
		n1 := base.Omit("zzz").Test(c16Test("n1"))
		n2 := base.Omit(map[string]bool{"a": false}).Test(c16Test("n2"))
		n3 := base.Omit().Test(c16Test("n3"))
		n4 := base.Pick("a", "b", "c").Test(c16Test("n4"))
		n5 := base.Extend(z.Schema{}).Test(c16Test("n5"))
		n6 := base.Merge(z.Struct(z.Schema{})).Test(c16Test("n6"))
		check(base, hand([]string{"a", "b", "c"}), "C16:derivation-modified-its-operand")
		check(n1, hand([]string{"a", "b", "c"}, "n1"), "C16:omit-differs-from-handwritten")
		check(n2, hand([]string{"a", "b", "c"}, "n2"), "C16:omit-differs-from-handwritten")
		check(n3, hand([]string{"a", "b", "c"}, "n3"), "C16:omit-differs-from-handwritten")
		check(n4, hand([]string{"a", "b", "c"}, "n4"), "C16:pick-differs-from-handwritten")
		check(n5, hand([]string{"a", "b", "c"}, "n5"), "C16:extend-differs-from-handwritten")
		check(n6, hand([]string{"a", "b", "c"}, "n6"), "C16:merge-differs-from-handwritten")
	case "pick-empty":
		// the fields of a Pick are exactly the selection, the empty selection included
		for _, x := range []*z.StructSchema{base.Pick(), base.Pick(map[string]bool{}), base.Pick(map[string]bool{"a": false, "b": false}), base.Omit("a", "b", "c")} {
			check(x, hand(nil), "C16:pick-differs-from-handwritten")
		}
		check(base, hand([]string{"a", "b", "c"}), "C16:derivation-modified-its-operand")
	case "merge-sizes":
		// later operands win whatever the relative sizes of the field maps
		small := z.Struct(z.Schema{"a": c16Field(td)}).Test(c16Test("s"))
		big := z.Struct(z.Schema{"a": c16Field(ta), "b": c16Field(tb), "c": c16Field(tc), "d": c16Field(td)})
		for i := 0; i < k; i++ {
			big = big.Test(c16Test("base" + string(rune('0'+i))))
		}
		x := small.Merge(big) // receiver smaller: the operand's "a" wins
		wantX := z.Struct(z.Schema{"a": c16Field(ta), "b": c16Field(tb), "c": c16Field(tc), "d": c16Field(td)}).Test(c16Test("s"))
		for i := 0; i < k; i++ {
			wantX = wantX.Test(c16Test("base" + string(rune('0'+i))))
		}
		check(x, wantX, "C16:merge-differs-from-handwritten")
		y := base.Merge(small) // receiver bigger: the operand's "a" wins
		check(y, hand([]string{"a2", "b", "c"}, "s"), "C16:merge-differs-from-handwritten")
		w := small.Merge(z.Struct(z.Schema{"b": c16Field(tb)}), big) // variadic, growing
		check(w, wantX, "C16:merge-differs-from-handwritten")
	case "merge-same-literal":
		// the PostTransforms of the operands are concatenated, in order - also when they are closures
		// of one function literal, or the very same transform inherited by both operands
		log := ""
		fa, fb, fc := c16Logger(&log, "A"), c16Logger(&log, "B"), c16Logger(&log, "C")
		a := z.Struct(z.Schema{"a": z.Int()}).PostTransform(fa)
		b := z.Struct(z.Schema{"b": z.Int()}).PostTransform(fb)
		c := z.Struct(z.Schema{"c": z.Int()}).PostTransform(fc).PostTransform(fa)
		var dd c16Dest
		e1 := a.Merge(b).Parse(in, &dd)
		v.Assert(e1 == nil && log == "AB", "C16:merge-lost-or-reordered-transforms")
		log = ""
		e2 := a.Merge(b, c).Parse(in, &dd)
		v.Assert(e2 == nil && log == "ABCA", "C16:merge-lost-or-reordered-transforms")
		log = ""
		dd = c16Dest{A: 1, B: 1, C: 1, D: 1}
		e3 := b.Merge(a, c).Validate(&dd)
		v.Assert(e3 == nil && log == "BACA", "C16:merge-lost-or-reordered-transforms")
		v.Cover("checked")
	case "merge3":
		// variadic Merge: fields, tests and PostTransforms of every operand, in order
		log := ""
		pt := func(tag string) z.PostTransform {
			return func(p any, ctx z.Ctx) error { log += tag; return nil }
		}
		o1 := z.Struct(z.Schema{"d": c16Field(td)}).Test(c16Test("o1")).PostTransform(pt("1"))
		o2 := z.Struct(z.Schema{"a": c16Field(td)}).Test(c16Test("o2")).PostTransform(pt("2"))
		bt := mkBase().PostTransform(pt("B"))
		x := bt.Merge(o1, o2)
		check(x, hand([]string{"a2", "b", "c", "d"}, "o1", "o2"), "C16:merge-differs-from-handwritten")
		// transforms only run on success: a merged schema without tests on passing input
		clean := z.Struct(z.Schema{"b": z.Int()}).PostTransform(pt("B"))
		c1 := z.Struct(z.Schema{"c": z.Int()}).PostTransform(pt("1"))
		c2 := z.Struct(z.Schema{"d": z.Int()}).PostTransform(pt("2"))
		c3 := z.Struct(z.Schema{"a": z.Int()}).PostTransform(pt("3"))
		log = ""
		var dd c16Dest
		errs := clean.Merge(c1, c2, c3).Parse(in, &dd)
		v.Assert(errs == nil && log == "B123", "C16:merge-lost-or-reordered-transforms")
		log = ""
		clean.Parse(in, &dd)
		c3.Parse(in, &dd)
		v.Assert(log == "B3", "C16:derivation-modified-its-operand")
		// a rules-only middle operand (no fields): the receiver's field map must not be written
		recv := mkBase()
		rules := z.Struct(z.Schema{}).Test(c16Test("r"))
		last := z.Struct(z.Schema{"d": c16Field(td)})
		m3 := recv.Merge(rules, last)
		check(m3, hand([]string{"a", "b", "c", "d"}, "r"), "C16:merge-differs-from-handwritten")
		check(recv, hand([]string{"a", "b", "c"}), "C16:derivation-modified-its-operand")
		check(rules, z.Struct(z.Schema{}).Test(c16Test("r")), "C16:derivation-modified-its-operand")
	case "transforms":
		// Pick/Omit/Extend keep the struct-level PostTransforms; later additions stay local
		log := ""
		pt := func(tag string) z.PostTransform {
			return func(p any, ctx z.Ctx) error { log += tag; return nil }
		}
		b0 := z.Struct(z.Schema{"a": z.Int(), "b": z.Int(), "c": z.Int()})
		for i := 0; i < k; i++ {
			b0 = b0.PostTransform(pt(string(rune('0' + i))))
		}
		x := b0.Pick("a").PostTransform(pt("x"))
		y := b0.Omit("a").PostTransform(pt("y"))
		w := b0.Extend(z.Schema{"d": z.Int()}).PostTransform(pt("w"))
		b1 := b0.PostTransform(pt("L"))
		prefix := ""
		for i := 0; i < k; i++ {
			prefix += string(rune('0' + i))
		}
		var dd c16Dest
		run := func(s *z.StructSchema) string { log = ""; s.Parse(in, &dd); return log }
		v.Assert(run(x) == prefix+"x", "C16:derived-schemas-influence-each-other")
		v.Assert(run(y) == prefix+"y", "C16:derived-schemas-influence-each-other")
		v.Assert(run(w) == prefix+"w", "C16:derived-schemas-influence-each-other")
		v.Assert(run(b1) == prefix+"L", "C16:derivation-modified-its-operand")
	case "chain":
		// derive, extend the derived schema, derive again from both
		x := base.Omit("c")
		x1 := x.Test(c16Test("x1"))
		x2 := x.Pick("a").Test(c16Test("x2"))
		x3 := x.Extend(z.Schema{"d": c16Field(td)}).Test(c16Test("x3"))
		_ = x1
		check(x2, hand([]string{"a"}, "x1", "x2"), "C16:derived-schemas-influence-each-other")
		check(x3, hand([]string{"a", "b", "d"}, "x1", "x3"), "C16:derived-schemas-influence-each-other")
		check(base, hand([]string{"a", "b", "c"}), "C16:derivation-modified-its-operand")
	}
	v.Cover("checked")
}

// ---------------------------------------------------------------------------------------
// C17 — builder methods act locally and mean what they say.

var c17NotOps = []string{"OneOf", "Len", "HasPrefix", "HasSuffix", "Contains", "ContainsUpper", "ContainsDigit", "ContainsSpecial", "Email", "UUID", "URL", "Match"}

func C17_Jobs() []string {
	var out []string
	for _, op := range c17NotOps {
		out = append(out, "not/"+op)
	}
	out = append(out, "not-scope", "not-empty-arg", "not-branches", "lastcall/int", "lastcall/str", "lastcall/slice", "lastcall/bool", "lastcall/float", "lastcall/time", "lastcall/options", "options/local", "options/shared-test", "options/not-moved", "not-with-options", "coercer/local", "coercer/slice", "coercer/nested", "coercer/constructors", "shared/fields", "shared/slice")
	return out
}
func C17_Covers() []string { return []string{"checked"} }

func c17Apply(s z.NotStringSchema[string], op string, p string, n int) (*z.StringSchema[string], string) {
	switch op {
	case "OneOf":
		return s.OneOf([]string{p, "zz"}), "one_of_options"
	case "Len":
		return s.Len(n), "len"
	case "HasPrefix":
		return s.HasPrefix(p), "prefix"
	case "HasSuffix":
		return s.HasSuffix(p), "suffix"
	case "Contains":
		return s.Contains(p), "contained"
	case "ContainsUpper":
		return s.ContainsUpper(), "contains_upper"
	case "ContainsDigit":
		return s.ContainsDigit(), "contains_digit"
	case "ContainsSpecial":
		return s.ContainsSpecial(), "contains_special"
	case "Email":
		return s.Email(), "email"
	case "UUID":
		return s.UUID(), "uuid"
	case "URL":
		return s.URL(), "url"
	}
	panic("c17 op")
}

func C17_Run(job string) {
	a, b, _, _ := split3(job)
	switch a {
	case "not-branches":
		// two negated tests started from one schema value that already holds n tests (0..9: every
		// spare-capacity situation of the test list): each resulting schema negates its own test,
		// with its own options
		n := v.Choice("tests-before", 10)
		base := z.String()
		for i := 0; i < n; i++ {
			base = base.Max(100 + i)
		}
		x, y := visible("x", 1), visible("y", 1)
		v.Assume(len(x) == 1 && len(y) == 1 && x != y)
		sa := base.Not().Contains(x, z.Message("first"))
		sb := base.Not().HasPrefix(y, z.Message("second"))
		var d string
		ea := sa.Parse("a"+x+"b", &d)
		eb := sb.Parse(y+"b", &d)
		has := func(l z.ZogIssueList, code, msg string) bool {
			k := 0
			for _, i := range l {
				if i.Code == code && i.Message == msg {
					k++
				}
			}
			return k == 1
		}
		v.Cover("checked")
		v.Assert(has(ea, "not_contained", "first"), "C17:not-scope")
		v.Assert(has(eb, "not_prefix", "second"), "C17:not-scope")
	case "not":
		var subj, param string
		switch b {
		case "Email":
			subj = []string{"a@b.co", "nope", "a@b..c"}[v.Choice("subj", 3)]
		case "UUID":
			subj = []string{"123e4567-e89b-12d3-a456-426614174000", "nope"}[v.Choice("subj", 2)]
		case "URL":
			subj = []string{"http://example.com", "nope"}[v.Choice("subj", 2)]
		case "Match":
			subj = []string{"abc", "abcd"}[v.Choice("subj", 2)]
		default:
			subj, param = v.String("s", 2), v.String("p", 2)
			v.Assume(len(subj) > 0)
		}
		n := v.Int("n")
		var plain, neg *z.StringSchema[string]
		var code string
		if b == "Match" {
			plain, code = z.String().Match(c17re), "match"
			neg = z.String().Not().Match(c17re)
		} else {
			plain, code = c17Apply(z.String(), b, param, n)
			neg, _ = c17Apply(z.String().Not(), b, param, n)
		}
		d1, d2 := subj, subj
		e1 := plain.Validate(&d1)
		e2 := neg.Validate(&d2)
		v.Assert((len(e1) == 0) != (len(e2) == 0), "C17:not-is-not-the-negation")
		if len(e2) > 0 {
			v.Assert(len(e2) == 1 && e2[0].Code == "not_"+code, "C17:not-code")
		}
		if len(e1) > 0 {
			v.Assert(len(e1) == 1 && e1[0].Code == code, "C17:plain-code")
		}
	case "not-scope":
		// Not() negates exactly the next test: in Not().X().Y(), Y is plain
		s, p := v.String("s", 2), v.String("p", 2)
		v.Assume(len(s) > 0)
		n := v.Int("n")
		sc := z.String().Not().HasPrefix(p).Min(n)
		d := s
		errs := sc.Validate(&d)
		hasP := len(p) <= len(s)
		for i := 0; i < len(p) && i < len(s); i++ {
			hasP = v.And(hasP, s[i] == p[i])
		}
		wantNot, wantMin := hasP, len(s) < n
		gotNot, gotMin, other := false, false, false
		for _, e := range errs {
			switch e.Code {
			case "not_prefix":
				gotNot = true
			case "min":
				gotMin = true
			default:
				other = true
			}
		}
		v.Assert(!other, "C17:unexpected-code-after-not")
		v.Assert(v.And(gotNot == wantNot, gotMin == wantMin), "C17:not-scope")
	case "not-empty-arg":
		// empty arguments: every string has the empty prefix/suffix/substring
		s := []string{"a", "ab", "@"}[v.Choice("s", 3)]
		k := v.Choice("which", 3)
		var sc *z.StringSchema[string]
		code := ""
		switch k {
		case 0:
			sc, code = z.String().Not().HasPrefix("").Email(), "not_prefix"
		case 1:
			sc, code = z.String().Not().HasSuffix("").Email(), "not_suffix"
		case 2:
			sc, code = z.String().Not().Contains("").Email(), "not_contained"
		}
		d := s
		errs := sc.Validate(&d)
		// the negated test always fails; Email stays plain and fails too (s has at most 2 bytes)
		v.Assert(len(errs) == 2 && errs[0].Code == code && errs[1].Code == "email", "C17:not-with-empty-argument")
	case "lastcall":
		c17LastCall(b)
	case "not-with-options":
		// options given to a negated test apply to that test as written
		s := []string{"a@b.co", "nope"}[v.Choice("subj", 2)]
		d := s
		e1 := z.String().Not().Email(z.IssueCode("my_code"), z.Message("M")).Validate(&d)
		if s == "a@b.co" {
			v.Assert(len(e1) == 1 && e1[0].Code == "my_code" && e1[0].Message == "M", "C17:options-not-applied")
		} else {
			v.Assert(len(e1) == 0, "C17:not-is-not-the-negation")
		}
		e2 := z.String().Not().Email(z.IssueCode("not_email")).Validate(&d)
		if s == "a@b.co" {
			v.Assert(len(e2) == 1 && e2[0].Code == "not_email", "C17:options-not-applied")
		}
		e3 := z.String().Not().HasPrefix("a", z.IssuePath("p")).Email().Validate(&d)
		for _, e := range e3 {
			v.Assert((e.Code == "not_prefix") == (e.Path == "p"), "C17:options-leaked-to-another-test")
		}
		v.Cover("checked")
		return
	case "options":
		if b == "not-moved" {
			// the Message of one test does not decorate issues that are not made by that test
			var sl []int
			e1 := z.Slice(z.Int().GT(5, z.Message("M-GT"))).Min(9, z.Message("M-MIN")).Parse([]any{10, "abc", nil, 1}, &sl)
			v.Assert(len(e1["[1]"]) == 1 && e1["[1]"][0].Code == "coerce" && e1["[1]"][0].Message != "M-GT", "C17:options-leaked-to-another-test")
			v.Assert(len(e1["[3]"]) == 1 && e1["[3]"][0].Message == "M-GT", "C17:options-not-applied")
			v.Assert(len(e1["$root"]) == 1 && e1["$root"][0].Message == "M-MIN", "C17:options-not-applied")
			var ds struct {
				A int
				B string
				C int
			}
			v.MapOrderChoice(true)
			e2 := z.Struct(z.Schema{"a": z.Int().GT(5, z.Message("M-A")), "b": z.String().Required(), "c": z.Int().PostTransform(func(p any, c z.Ctx) error { return errBadInput })}).
				Parse(map[string]any{"a": 10, "c": 1}, &ds)
			v.Assert(len(e2["b"]) == 1 && e2["b"][0].Message != "M-A", "C17:options-leaked-to-another-test")
			// (c's transform runs only if nothing failed before it: depends on the visit order)
			v.Assert(len(e2["c"]) == 0 || (len(e2["c"]) == 1 && e2["c"][0].Message != "M-A"), "C17:options-leaked-to-another-test")
			v.Cover("checked")
			return
		}
		if b == "shared-test" {
			// a reusable Test value (z.TestFunc) copied and given different options: each copy
			// reports with its own code, message, path and params
			base := z.TestFunc("base_code", func(val any, c z.Ctx) bool { return false }, z.Message("base message"))
			ta, tb := base, base
			z.Message("A")(&ta)
			z.IssueCode("code_a")(&ta)
			z.IssuePath("path.b")(&tb)
			z.Params(map[string]any{"p": 1})(&tb)
			var d int
			x := v.Int("x")
			errs := z.Int().Test(base).Test(ta).Test(tb).Parse(x, &d)
			v.Assert(len(errs) == 3, "C17:options-changed-the-verdict")
			v.Assert(errs[0].Code == "base_code" && errs[0].Message == "base message" && errs[0].Path == "", "C17:options-leaked-to-another-test")
			v.Assert(errs[1].Code == "code_a" && errs[1].Message == "A", "C17:options-not-applied")
			v.Assert(errs[2].Code == "base_code" && errs[2].Path == "path.b" && len(errs[2].Params) == 1, "C17:options-not-applied")
			v.Cover("checked")
			return
		}
		// options passed to one test do not appear on another
		g, l := v.Int("g"), v.Int("l")
		x := v.Int("x")
		sc := z.Int().GT(g, z.Message("M1"), z.IssueCode("c1"), z.IssuePath("p1"), z.Params(map[string]any{"k": 1})).LT(l)
		d := 0
		errs := sc.Parse(x, &d)
		for _, e := range errs {
			if e.Code == "c1" {
				v.Assert(e.Message == "M1" && e.Path == "p1" && len(e.Params) == 1, "C17:options-not-applied")
			} else {
				v.Assert(e.Code == "lt" && e.Path == "" && e.Message != "M1" && e.Params["lt"] == l, "C17:options-leaked-to-another-test")
			}
		}
		v.Assert(len(errs) == v.B2I(!(x > g))+v.B2I(!(x < l)), "C17:options-changed-the-verdict")
	case "coercer":
		if b == "constructors" {
			// WithCoercer passed to ANY constructor replaces that schema's coercion
			calls := 0
			var d struct {
				I   int
				I32 int32
				I64 int64
				F   float64
				F32 float32
				B   bool
				S   string
				T   time.Time
			}
			t1 := time.Unix(7, 0).UTC()
			mk := func(out any) z.SchemaOption {
				return z.WithCoercer(func(x any) (any, error) { calls++; return out, nil })
			}
			errs := z.Struct(z.Schema{"i": z.Int(mk(7)), "i32": z.Int32(mk(int32(7))), "i64": z.Int64(mk(int64(7))), "f": z.Float64(mk(7.5)), "f32": z.Float32(mk(float32(7.5))),
				"b": z.Bool(mk(true)), "s": z.String(mk("seven")), "t": z.Time(mk(t1))}).
				Parse(map[string]any{"i": "zz", "i32": "zz", "i64": "zz", "f": "zz", "f32": "zz", "b": "zz", "s": 1, "t": "zz"}, &d)
			v.Assert(errs == nil && calls == 8, "C17:withcoercer-not-applied")
			v.Assert(d.I == 7 && d.I32 == 7 && d.I64 == 7 && d.F == 7.5 && d.F32 == 7.5 && d.B && d.S == "seven" && d.T.Equal(t1), "C17:withcoercer-not-applied")
			v.Cover("checked")
			return
		}
		if b == "nested" {
			// WithCoercer on an outer schema (slice of slices, slice of pointers to slices, slice of
			// structs) configures that schema only: the nested schemas keep their own coercion, also
			// where the same nested schema object is used elsewhere
			calls := 0
			outer := func(x any) (any, error) { calls++; return x, nil }
			k := v.Int("k")
			inner := z.Slice(z.Int())
			innerP := z.Slice(z.Int())
			var d1 [][]int
			var d2 []*[]int
			var d3 []int
			e1 := z.Slice(inner, z.WithCoercer(outer)).Parse([]any{k, []any{1, 2}}, &d1)
			v.Assert(e1 == nil && calls == 1 && len(d1) == 2 && len(d1[0]) == 1 && d1[0][0] == k && len(d1[1]) == 2, "C17:withcoercer-leaked")
			e2 := z.Slice(z.Ptr(innerP), z.WithCoercer(outer)).Parse([]any{k}, &d2)
			v.Assert(e2 == nil && calls == 2 && len(d2) == 1 && d2[0] != nil && len(*d2[0]) == 1 && (*d2[0])[0] == k, "C17:withcoercer-leaked")
			// the nested schema objects on their own still box a scalar with the default coercer
			e3 := inner.Parse(k, &d3)
			v.Assert(e3 == nil && calls == 2 && len(d3) == 1 && d3[0] == k, "C17:withcoercer-leaked")
			e3 = innerP.Parse(k, &d3)
			v.Assert(e3 == nil && calls == 2 && len(d3) == 1, "C17:withcoercer-leaked")
			v.Cover("checked")
			return
		}
		if b == "slice" {
			// WithCoercer on a slice schema replaces the coercion of that schema for every input
			calls := 0
			k := v.Int("k")
			cs := func(x any) (any, error) { calls++; return []any{k}, nil }
			var d1, d2 []int
			e1 := z.Slice(z.Int(), z.WithCoercer(cs)).Parse([]any{1, 2}, &d1)
			e2 := z.Slice(z.Int()).Parse([]any{1, 2}, &d2)
			v.Assert(e1 == nil && calls == 1 && len(d1) == 1 && d1[0] == k, "C17:withcoercer-not-applied")
			v.Assert(e2 == nil && len(d2) == 2 && d2[0] == 1, "C17:withcoercer-leaked")
			v.Cover("checked")
			return
		}
		k := v.Int("k")
		co := func(x any) (any, error) { return k, nil }
		a1 := z.Int(z.WithCoercer(co))
		a2 := z.Int()
		var d struct{ A, B int }
		errs := z.Struct(z.Schema{"a": a1, "b": a2}).Parse(map[string]any{"a": "zz", "b": "zz"}, &d)
		v.Assert(len(errs["a"]) == 0 && d.A == k, "C17:withcoercer-not-applied")
		v.Assert(len(errs["b"]) == 1 && errs["b"][0].Code == "coerce", "C17:withcoercer-leaked")
	case "shared":
		// one schema object used at several places behaves like independent copies
		g := v.Int("g")
		shared := z.Int().GT(g).Required()
		x, y := v.Int("x"), v.Int("y")
		if b == "fields" {
			var d1, d2 struct{ A, B int }
			in := map[string]any{"a": x, "b": y}
			if v.Choice("b-missing", 2) == 1 {
				delete(in, "b")
			}
			e1 := z.Struct(z.Schema{"a": shared, "b": shared}).Parse(in, &d1)
			e2 := z.Struct(z.Schema{"a": z.Int().GT(g).Required(), "b": z.Int().GT(g).Required()}).Parse(in, &d2)
			v.Assert(sameMapsExcept(e1, e2, nil), "C17:shared-schema-object-differs-from-copies")
			v.Assert(d1.A == d2.A && d1.B == d2.B, "C17:shared-schema-object-differs-from-copies")
		} else {
			var d1, d2 struct {
				A int
				L []int
			}
			in := map[string]any{"a": x, "l": []any{y, x}}
			e1 := z.Struct(z.Schema{"a": shared, "l": z.Slice(shared)}).Parse(in, &d1)
			e2 := z.Struct(z.Schema{"a": z.Int().GT(g).Required(), "l": z.Slice(z.Int().GT(g).Required())}).Parse(in, &d2)
			v.Assert(sameMapsExcept(e1, e2, nil), "C17:shared-schema-object-differs-from-copies")
			v.Assert(d1.A == d2.A && eqIntSlices(d1.L, d2.L), "C17:shared-schema-object-differs-from-copies")
		}
	}
	v.Cover("checked")
}

// last call wins for Required/Optional/Default/Catch: a sequence of three modifier calls is
// compared with the schema carrying only what the sequence leaves in force.
func c17LastCall(kind string) {
	// modifier alphabet: 0 Required(), 1 Optional(), 2 Default(v1), 3 Default(v2), 4 Catch(v1), 5 Catch(v2), 6 Required(Message("M2"))
	seq := []int{v.Choice("m0", 7), v.Choice("m1", 7), v.Choice("m2", 7)}
	if v.Tier() == 1 {
		seq = append(seq, v.Choice("m3", 7)) // thorough: sequences of four modifier calls
	}
	v1, v2 := v.Int("v1"), v.Int("v2")
	g := v.Int("g")
	req, reqMsg := false, false
	def, catch := 0, 0 // 0 none, 1 v1, 2 v2
	for _, m := range seq {
		switch m {
		case 0:
			req, reqMsg = true, false
		case 1:
			req = false
		case 2:
			def = 1
		case 3:
			def = 2
		case 4:
			catch = 1
		case 5:
			catch = 2
		case 6:
			req, reqMsg = true, true
		}
	}
	pick := func(k int) int {
		if k == 1 {
			return v1
		}
		return v2
	}
	cls := v.Choice("in", 3) // nil, failing value, passing value
	x := v.Int("x")
	var in any
	switch cls {
	case 1:
		v.Assume(!(x > g))
		in = x
	case 2:
		v.Assume(x > g)
		in = x
	}
	switch kind {
	case "int":
		s := z.Int().GT(g)
		w := z.Int().GT(g)
		for _, m := range seq {
			switch m {
			case 0:
				s = s.Required()
			case 1:
				s = s.Optional()
			case 2:
				s = s.Default(v1)
			case 3:
				s = s.Default(v2)
			case 4:
				s = s.Catch(v1)
			case 5:
				s = s.Catch(v2)
			case 6:
				s = s.Required(z.Message("M2"))
			}
		}
		if req {
			if reqMsg {
				w = w.Required(z.Message("M2"))
			} else {
				w = w.Required()
			}
		}
		if def != 0 {
			w = w.Default(pick(def))
		}
		if catch != 0 {
			w = w.Catch(pick(catch))
		}
		d1, d2 := 77, 77
		e1 := s.Parse(in, &d1)
		e2 := w.Parse(in, &d2)
		v.Assert(fullCodes(e1) == fullCodes(e2), "C17:modifier-last-call-does-not-win")
		v.Assert(d1 == d2, "C17:modifier-last-call-does-not-win")
		// and what the modifiers in force mean (a twin comparison cannot see a slip that moves both
		// sides): the value under test is the input, else the default; failing => catch value or issue
		have, val := cls != 0, x
		if !have && def != 0 {
			have, val = true, pick(def)
		}
		switch {
		case have && val > g:
			v.Assert(len(e1) == 0 && d1 == val, "C17:modifier-last-call-does-not-win")
		case have && catch != 0:
			v.Assert(len(e1) == 0 && d1 == pick(catch), "C17:modifier-last-call-does-not-win")
		case have:
			v.Assert(len(e1) == 1 && e1[0].Code == "gt", "C17:modifier-last-call-does-not-win")
		case req && catch != 0:
			v.Assert(len(e1) == 0 && d1 == pick(catch), "C17:modifier-last-call-does-not-win")
		case req:
			v.Assert(len(e1) == 1 && e1[0].Code == "required" && d1 == 77, "C17:modifier-last-call-does-not-win")
		default:
			v.Assert(len(e1) == 0 && d1 == 77, "C17:modifier-last-call-does-not-win")
		}
	case "str":
		sv1, sv2 := "one", "two"
		s := z.String().Min(2)
		w := z.String().Min(2)
		for _, m := range seq {
			switch m {
			case 0:
				s = s.Required()
			case 1:
				s = s.Optional()
			case 2:
				s = s.Default(sv1)
			case 3:
				s = s.Default(sv2)
			case 4:
				s = s.Catch(sv1)
			case 5:
				s = s.Catch(sv2)
			case 6:
				s = s.Required(z.Message("M2"))
			}
		}
		if req {
			if reqMsg {
				w = w.Required(z.Message("M2"))
			} else {
				w = w.Required()
			}
		}
		if def != 0 {
			w = w.Default([]string{"", sv1, sv2}[def])
		}
		if catch != 0 {
			w = w.Catch([]string{"", sv1, sv2}[catch])
		}
		var sin any
		switch cls {
		case 1:
			sin = "q"
		case 2:
			sin = "long enough"
		}
		d1, d2 := "pre", "pre"
		e1 := s.Parse(sin, &d1)
		e2 := w.Parse(sin, &d2)
		v.Assert(fullCodes(e1) == fullCodes(e2), "C17:modifier-last-call-does-not-win")
		v.Assert(d1 == d2, "C17:modifier-last-call-does-not-win")
	case "slice":
		// Required / Optional / Default on slices
		s := z.Slice(z.Int())
		w := z.Slice(z.Int())
		sreq := false
		sdef := 0
		for _, m := range seq {
			switch m {
			case 0, 6:
				s, sreq = s.Required(), true
			case 1:
				s, sreq = s.Optional(), false
			case 2, 4:
				s, sdef = s.Default([]int{v1}), 1
			case 3, 5:
				s, sdef = s.Default([]int{v2, v2}), 2
			}
		}
		if sreq {
			w = w.Required()
		}
		switch sdef {
		case 1:
			w = w.Default([]int{v1})
		case 2:
			w = w.Default([]int{v2, v2})
		}
		var lin any
		if cls != 0 {
			lin = []any{x}
		}
		var d1, d2 []int
		e1 := s.Parse(lin, &d1)
		e2 := w.Parse(lin, &d2)
		v.Assert(sameMapsExcept(e1, e2, nil), "C17:modifier-last-call-does-not-win")
		v.Assert(eqIntSlices(d1, d2), "C17:modifier-last-call-does-not-win")
	case "bool":
		bv := []bool{false, true, false}
		s := z.Bool().True()
		w := z.Bool().True()
		for _, m := range seq {
			switch m {
			case 0:
				s = s.Required()
			case 1:
				s = s.Optional()
			case 2:
				s = s.Default(bv[1])
			case 3:
				s = s.Default(bv[2])
			case 4:
				s = s.Catch(bv[1])
			case 5:
				s = s.Catch(bv[2])
			case 6:
				s = s.Required(z.Message("M2"))
			}
		}
		if req {
			if reqMsg {
				w = w.Required(z.Message("M2"))
			} else {
				w = w.Required()
			}
		}
		if def != 0 {
			w = w.Default(bv[def])
		}
		if catch != 0 {
			w = w.Catch(bv[catch])
		}
		var bin any
		switch cls {
		case 1:
			bin = false
		case 2:
			bin = true
		}
		pre := v.Bool("pre")
		d1, d2 := pre, pre
		e1 := s.Parse(bin, &d1)
		e2 := w.Parse(bin, &d2)
		v.Assert(fullCodes(e1) == fullCodes(e2), "C17:modifier-last-call-does-not-win")
		v.Assert(d1 == d2, "C17:modifier-last-call-does-not-win")
	case "float":
		fg := v.Float64("fg")
		fv := []float64{0, v.Float64("fv1"), v.Float64("fv2")}
		s := z.Float64().GT(fg)
		w := z.Float64().GT(fg)
		for _, m := range seq {
			switch m {
			case 0:
				s = s.Required()
			case 1:
				s = s.Optional()
			case 2:
				s = s.Default(fv[1])
			case 3:
				s = s.Default(fv[2])
			case 4:
				s = s.Catch(fv[1])
			case 5:
				s = s.Catch(fv[2])
			case 6:
				s = s.Required(z.Message("M2"))
			}
		}
		if req {
			if reqMsg {
				w = w.Required(z.Message("M2"))
			} else {
				w = w.Required()
			}
		}
		if def != 0 {
			w = w.Default(fv[def])
		}
		if catch != 0 {
			w = w.Catch(fv[catch])
		}
		var fin any
		if cls != 0 {
			fin = v.Float64("f") // passing or failing: the solver splits
		}
		d1, d2 := 7.5, 7.5
		e1 := s.Parse(fin, &d1)
		e2 := w.Parse(fin, &d2)
		v.Assert(fullCodes(e1) == fullCodes(e2), "C17:modifier-last-call-does-not-win")
		v.Assert(v.SameBits(d1, d2), "C17:modifier-last-call-does-not-win")
	case "time":
		t0 := time.Unix(1000, 0).UTC()
		tv := []time.Time{{}, time.Unix(5000, 0).UTC(), time.Unix(6000, 0).UTC()}
		s := z.Time().After(t0)
		w := z.Time().After(t0)
		for _, m := range seq {
			switch m {
			case 0:
				s = s.Required()
			case 1:
				s = s.Optional()
			case 2:
				s = s.Default(tv[1])
			case 3:
				s = s.Default(tv[2])
			case 4:
				s = s.Catch(tv[1])
			case 5:
				s = s.Catch(tv[2])
			case 6:
				s = s.Required(z.Message("M2"))
			}
		}
		if req {
			if reqMsg {
				w = w.Required(z.Message("M2"))
			} else {
				w = w.Required()
			}
		}
		if def != 0 {
			w = w.Default(tv[def])
		}
		if catch != 0 {
			w = w.Catch(tv[catch])
		}
		var tin any
		switch cls {
		case 1:
			tin = time.Unix(10, 0).UTC()
		case 2:
			tin = time.Unix(2000, 0).UTC()
		}
		d1, d2 := time.Unix(1, 0).UTC(), time.Unix(1, 0).UTC()
		e1 := s.Parse(tin, &d1)
		e2 := w.Parse(tin, &d2)
		v.Assert(fullCodes(e1) == fullCodes(e2), "C17:modifier-last-call-does-not-win")
		v.Assert(d1.Equal(d2), "C17:modifier-last-call-does-not-win")
	case "options":
		// Required(options) twice: the second call replaces the first completely
		s := z.Int().Required(z.Message("FIRST"), z.IssueCode("first_code"), z.IssuePath("first.path")).Required()
		d := 0
		e := s.Parse(nil, &d)
		v.Assert(len(e) == 1 && e[0].Code == "required" && e[0].Path == "" && e[0].Message != "FIRST", "C17:modifier-last-call-does-not-win")
		s2 := z.Float64().Required(z.Message("FIRST")).Optional().Required(z.Message("SECOND"))
		f := 0.0
		e = s2.Parse(nil, &f)
		v.Assert(len(e) == 1 && e[0].Message == "SECOND", "C17:modifier-last-call-does-not-win")
		s3 := z.Ptr(z.Int()).NotNil(z.Message("FIRST")).NotNil()
		var pd *int
		em := s3.Parse(nil, &pd)
		v.Assert(len(em["$root"]) == 1 && em["$root"][0].Message != "FIRST", "C17:modifier-last-call-does-not-win")
	}
}

var c17re = regexp.MustCompile("^[a-c]{3}$")
