package h

import (
	"encoding/json"
	"fmt"
	"os"
	"testing"

	p "github.com/Oudwins/zog/internals"
	v "github.com/Oudwins/zog/zzverif"
)

type replayRun struct {
	Prop   string            `json:"prop"`
	Job    string            `json:"job"`
	Mode   string            `json:"mode"`
	Label  string            `json:"label"`
	Script map[string]string `json:"script"`
	Trace  []string          `json:"trace"`
	Tier   int               `json:"tier"`
	Tries  int               `json:"tries"`
}

type replayOut struct {
	Matched bool     `json:"matched"`
	Tries   int      `json:"tries"`
	Failed  string   `json:"failed,omitempty"`
	Panic   string   `json:"panic,omitempty"`
	Trace   []string `json:"trace,omitempty"`
}

func runOne(r replayRun) (failed string, trace []string, pmsg string) {
	script := map[string]string{}
	for k, x := range r.Script {
		script[k] = x
	}
	v.Reset(script)
	v.SetTier(r.Tier)
	p.ClearPools()
	defer func() {
		if e := recover(); e != nil {
			switch x := e.(type) {
			case v.AssertFailed:
			case v.AssumeFailed:
				pmsg = "assume-failed"
			default:
				pmsg = fmt.Sprint(x)
				v.Trace = append(v.Trace, "panic")
			}
		}
		failed, trace = v.Failed, v.Trace
	}()
	run, ok := Registry[r.Prop]
	if !ok {
		panic("no harness registered for " + r.Prop)
	}
	run(r.Job)
	return
}

func sameTrace(a, b []string) bool {
	if len(a) != len(b) {
		return false
	}
	for i := range a {
		if a[i] != b[i] {
			return false
		}
	}
	return true
}

func TestZZReplay(t *testing.T) {
	in, out := os.Getenv("ZZVERIF_REPLAY_IN"), os.Getenv("ZZVERIF_REPLAY_OUT")
	if in == "" {
		t.Skip("no replay requested")
	}
	b, err := os.ReadFile(in)
	if err != nil {
		t.Fatal(err)
	}
	var runs []replayRun
	if err := json.Unmarshal(b, &runs); err != nil {
		t.Fatal(err)
	}
	outs := make([]replayOut, len(runs))
	for i, r := range runs {
		if r.Tries < 1 {
			r.Tries = 1
		}
		var o replayOut
		for try := 1; try <= r.Tries; try++ {
			failed, trace, pmsg := runOne(r)
			o = replayOut{Tries: try, Failed: failed, Panic: pmsg, Trace: trace}
			if r.Mode == "violation" {
				if r.Label == "unexpected-panic" {
					o.Matched = pmsg != "" && pmsg != "assume-failed"
				} else {
					o.Matched = failed == r.Label
				}
			} else {
				o.Matched = sameTrace(trace, r.Trace) && pmsg == ""
			}
			if o.Matched {
				break
			}
		}
		outs[i] = o
	}
	ob, _ := json.Marshal(outs)
	if err := os.WriteFile(out, ob, 0o644); err != nil {
		t.Fatal(err)
	}
}
