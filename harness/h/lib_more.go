package h

import (
	"time"

	z "github.com/Oudwins/zog"
	v "github.com/Oudwins/zog/zzverif"
)

// ================= Float64 leaf =================
//
// Same reference semantics as the Int leaf, on IEEE doubles: the value passes through bit for
// bit, GT/LT are the Go comparisons (false on NaN), zero (+0 and -0) is the absent value of
// Validate.

const floatPre = 4242.5

type FloatNode struct {
	name                  string
	Req, HasDef, HasCatch bool
	Def, Catch, G, L      float64
	NT                    int // 0: no tests, 1: GT(G), 2: GT(G) and LT(L)
	Class                 int
	F                     float64
	I                     int // cAlt: an int input
	pre, exp              float64
	untouched             bool
}

func newFloat(name string, deco, nt int, classes []int) *FloatNode {
	n := &FloatNode{name: name, Req: deco&dReq != 0, HasDef: deco&dDef != 0, HasCatch: deco&dCatch != 0, NT: nt, pre: floatPre}
	if n.HasDef {
		n.Def = v.Float64(name + ".def")
	}
	if n.HasCatch {
		n.Catch = v.Float64(name + ".catch")
	}
	if nt >= 1 {
		n.G = v.Float64(name + ".gt")
	}
	if nt >= 2 {
		n.L = v.Float64(name + ".lt")
	}
	n.Class = classes[v.Choice(name+".class", len(classes))]
	switch n.Class {
	case cVal:
		n.F = v.Float64(name + ".in")
	case cAlt:
		n.I = v.Int(name + ".in")
		n.F = float64(n.I)
	}
	return n
}

func (n *FloatNode) Schema() z.ZogSchema { return n.schema() }
func (n *FloatNode) schema() *z.NumberSchema[float64] {
	s := z.Float64()
	if n.NT >= 1 {
		s = s.GT(n.G)
	}
	if n.NT >= 2 {
		s = s.LT(n.L)
	}
	if n.Req {
		s = s.Required()
	}
	if n.HasDef {
		s = s.Default(n.Def)
	}
	if n.HasCatch {
		s = s.Catch(n.Catch)
	}
	return s
}

func (n *FloatNode) Input() (any, bool) {
	switch n.Class {
	case cMissing:
		return nil, false
	case cNil:
		return nil, true
	case cBlank:
		return "\t ", true
	case cVal:
		return n.F, true
	case cBad:
		return "zz", true
	case cAlt:
		return n.I, true
	}
	panic("float class")
}

func (n *FloatNode) Prep(mode int, dest any) {
	d := dest.(*float64)
	if mode == Parse {
		*d = n.pre
	} else {
		*d = n.F
		n.pre = n.F
	}
}

func (n *FloatNode) Absent(mode int) bool {
	if mode == Parse {
		return n.Class == cMissing || n.Class == cNil || n.Class == cBlank
	}
	return n.F == 0
}

func (n *FloatNode) Ref(mode int, path string) []Iss {
	n.untouched = false
	var val float64
	var out []Iss
	fail := false
	if n.Absent(mode) {
		if n.HasDef {
			val = n.Def
		} else if n.Req {
			fail, n.untouched = true, true
			out = []Iss{{path, "required", "number"}}
		} else {
			n.untouched = true
			return nil
		}
	} else if mode == Parse && n.Class == cBad {
		fail, n.untouched = true, true
		out = []Iss{{path, "coerce", "number"}}
	} else {
		val = n.F
	}
	if !fail {
		if n.NT >= 1 && !(val > n.G) {
			out = append(out, Iss{path, "gt", "number"})
		}
		if n.NT >= 2 && !(val < n.L) {
			out = append(out, Iss{path, "lt", "number"})
		}
		fail = len(out) > 0
	}
	if n.HasCatch && fail {
		n.exp, n.untouched = n.Catch, false
		return nil
	}
	n.exp = val
	return out
}

func (n *FloatNode) DestOK(mode int, dest any) bool {
	d := *dest.(*float64)
	if n.untouched {
		return v.SameBits(d, n.pre)
	}
	return v.SameBits(d, n.exp)
}

func (n *FloatNode) Holds(mode int, dest any) bool {
	d := *dest.(*float64)
	caught := v.And(n.HasCatch, v.SameBits(d, n.Catch))
	if n.Absent(mode) && !n.HasDef {
		if n.Req {
			return caught
		}
		return true
	}
	if mode == Parse && n.Class == cBad {
		return caught
	}
	ok := true
	if n.NT >= 1 {
		ok = v.And(ok, d > n.G)
	}
	if n.NT >= 2 {
		ok = v.And(ok, d < n.L)
	}
	return v.Or(ok, caught)
}

// ================= Time leaf =================
//
// Instants are whole seconds in a bounded range; tests are After(G) and Before(L); the zero
// value time.Time{} is the absent value of Validate (drawn as an explicit choice there).

var timePre = time.Unix(424242, 0).UTC()

type TimeNode struct {
	name                  string
	Req, HasDef, HasCatch bool
	Def, Catch, G, L      time.Time
	NT                    int // 0: no tests, 1: After(G), 2: After(G) and Before(L)
	Class                 int
	T                     time.Time
	sec                   int64
	zero                  bool // Validate: the value is time.Time{}
	pre, exp              time.Time
	untouched             bool
}

func symInstant(name string) (time.Time, int64) {
	s := v.Int64(name)
	v.Assume(s > -(1<<40) && s < 1<<40)
	return time.Unix(s, 0).UTC(), s
}

func newTime(name string, deco, nt int, classes []int, mode int) *TimeNode {
	n := &TimeNode{name: name, Req: deco&dReq != 0, HasDef: deco&dDef != 0, HasCatch: deco&dCatch != 0, NT: nt, pre: timePre}
	if n.HasDef {
		n.Def, _ = symInstant(name + ".def")
	}
	if n.HasCatch {
		n.Catch, _ = symInstant(name + ".catch")
	}
	if nt >= 1 {
		n.G, _ = symInstant(name + ".after")
	}
	if nt >= 2 {
		n.L, _ = symInstant(name + ".before")
	}
	n.Class = classes[v.Choice(name+".class", len(classes))]
	if n.Class == cVal || n.Class == cAlt {
		n.T, n.sec = symInstant(name + ".in")
		// (the zero instant in UTC IS time.Time{}: that value is drawn by the explicit choice below)
		v.Assume(n.sec != -62135596800)
	}
	if mode == Validate && v.Choice(name+".zero", 2) == 1 {
		n.zero, n.T = true, time.Time{}
	}
	return n
}

func (n *TimeNode) Schema() z.ZogSchema { return n.schema() }
func (n *TimeNode) schema() *z.TimeSchema {
	s := z.Time()
	if n.NT >= 1 {
		s = s.After(n.G)
	}
	if n.NT >= 2 {
		s = s.Before(n.L)
	}
	if n.Req {
		s = s.Required()
	}
	if n.HasDef {
		s = s.Default(n.Def)
	}
	if n.HasCatch {
		s = s.Catch(n.Catch)
	}
	return s
}

func (n *TimeNode) Input() (any, bool) {
	switch n.Class {
	case cMissing:
		return nil, false
	case cNil:
		return nil, true
	case cBlank:
		return " ", true
	case cVal:
		return n.T, true
	case cBad:
		return "zz", true
	case cAlt:
		return n.sec, true // unix seconds
	}
	panic("time class")
}

func (n *TimeNode) Prep(mode int, dest any) {
	d := dest.(*time.Time)
	if mode == Parse {
		*d = n.pre
	} else {
		*d = n.T
		n.pre = n.T
	}
}

func (n *TimeNode) Absent(mode int) bool {
	if mode == Parse {
		return n.Class == cMissing || n.Class == cNil || n.Class == cBlank
	}
	return n.zero
}

func (n *TimeNode) Ref(mode int, path string) []Iss {
	n.untouched = false
	var val time.Time
	var out []Iss
	fail := false
	if n.Absent(mode) {
		if n.HasDef {
			val = n.Def
		} else if n.Req {
			fail, n.untouched = true, true
			out = []Iss{{path, "required", "time"}}
		} else {
			n.untouched = true
			return nil
		}
	} else if mode == Parse && n.Class == cBad {
		fail, n.untouched = true, true
		out = []Iss{{path, "coerce", "time"}}
	} else {
		val = n.T
	}
	if !fail {
		if n.NT >= 1 && !val.After(n.G) {
			out = append(out, Iss{path, "after", "time"})
		}
		if n.NT >= 2 && !val.Before(n.L) {
			out = append(out, Iss{path, "before", "time"})
		}
		fail = len(out) > 0
	}
	if n.HasCatch && fail {
		n.exp, n.untouched = n.Catch, false
		return nil
	}
	n.exp = val
	return out
}

func (n *TimeNode) DestOK(mode int, dest any) bool {
	d := *dest.(*time.Time)
	if n.untouched {
		return d.Equal(n.pre)
	}
	return d.Equal(n.exp)
}

func (n *TimeNode) Holds(mode int, dest any) bool {
	d := *dest.(*time.Time)
	caught := v.And(n.HasCatch, d.Equal(n.Catch))
	if n.Absent(mode) && !n.HasDef {
		if n.Req {
			return caught
		}
		return true
	}
	if mode == Parse && n.Class == cBad {
		return caught
	}
	ok := true
	if n.NT >= 1 {
		ok = v.And(ok, d.After(n.G))
	}
	if n.NT >= 2 {
		ok = v.And(ok, d.Before(n.L))
	}
	return v.Or(ok, caught)
}

// ---- focus nodes of kinds other than Int (template T8): what the relational Catch check needs

type catchNode interface {
	Node
	setCatch(on bool)
	holdsCatch(dest any) bool // dest holds the node's catch value
}

func (n *StrNode) setCatch(on bool)   { n.HasCatch = on }
func (n *BoolNode) setCatch(on bool)  { n.HasCatch = on }
func (n *FloatNode) setCatch(on bool) { n.HasCatch = on }
func (n *TimeNode) setCatch(on bool)  { n.HasCatch = on }

func (n *StrNode) holdsCatch(dest any) bool   { return *dest.(*string) == n.Catch }
func (n *BoolNode) holdsCatch(dest any) bool  { return *dest.(*bool) == n.Catch }
func (n *FloatNode) holdsCatch(dest any) bool { return v.SameBits(*dest.(*float64), n.Catch) }
func (n *TimeNode) holdsCatch(dest any) bool  { return dest.(*time.Time).Equal(n.Catch) }

// sameLeaf: two destinations of the same leaf kind hold the same value
func sameLeaf(a, b any) bool {
	switch x := a.(type) {
	case *string:
		return *x == *b.(*string)
	case *bool:
		return *x == *b.(*bool)
	case *float64:
		return v.SameBits(*x, *b.(*float64))
	case *time.Time:
		return x.Equal(*b.(*time.Time))
	case *int:
		return *x == *b.(*int)
	}
	return false
}
