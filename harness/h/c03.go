package h

import (
	"fmt"
	"strconv"
	"time"

	z "github.com/Oudwins/zog"
	"github.com/Oudwins/zog/zhttp"
	"github.com/Oudwins/zog/conf"
	v "github.com/Oudwins/zog/zzverif"
)

func init() { Registry["C03"] = C03_Run }

// C03 — on success the destination holds the documented coercion of the input.

func C03_Jobs() []string { return append(c03_jobs0(), "json-records") }
func c03_jobs0() []string {
	return []string{
		"int/int", "int/int32", "int/int64", "int/float64", "int/decstr", "int/bool", "int/literal-strings",
		"int64/int", "int64/decstr", "int32/int32",
		"float/float64", "float/int", "float/float32", "float/fltstr", "float32/float32",
		"bool/bool", "bool/words", "bool/int",
		"string/string", "string/fmt", "string/blank-untouched",
		"time/time", "time/rfc3339", "time/unix-int", "time/unix-int64", "time/format", "time/formatfunc", "time/zero-value",
		"option/withcoercer-int", "option/withcoercer-string", "option/withcoercer-ptr", "option/withcoercer-slice", "option/global-override", "option/global-override-widths",
		"slice/list", "slice/scalar", "slice/typed", "slice/repeated-params",
		"struct/unnamed-untouched", "struct/absent-untouched", "struct/pointer", "struct/pointer-prealloc",
		"shape/parse/T2/catchint/d4", "shape/parse/T2/catchint/d5", "shape/parse/T2/int/d6", "shape/parse/T3/int/d4", "shape/parse/T3/int/d2", "shape/parse/T4/nested/d5", "shape/parse/T5/slicestruct/d4", "shape/parse/T6/ptrstruct/d2", "shape/parse/T2/slice/d2", "shape/parse/T2/ptr/d1",
	}
}
func C03_Covers() []string { return []string{"success"} }

func c03ok(n int) {
	v.Assert(n == 0, "C03:unexpected-issue-on-coercible-input")
	v.Cover("success")
}

func C03_Run(job string) {
	if job == "json-records" {
		jrCheck("C03")
		return
	}
	if len(job) > 6 && job[:6] == "shape/" {
		// on success every destination leaf of a nested schema equals the reference outcome
		// (coerced input, default, or catch value), leaves the schema skipped are untouched
		sh := buildShape(job[6:])
		o := runReal(sh)
		want := sh.want(o)
		if o.empty() {
			v.Cover("success")
			v.Assert(len(want) == 0, "C03:unexpected-success")
			v.Assert(sh.root().DestOK(sh.mode, sh.destPtr(o)), "C03:destination-differs-from-documented-outcome")
			if sh.top != nil {
				v.Assert(o.dest.U == 99, "C03:unnamed-field-written")
			}
		}
		return
	}
	a, b, _, _ := split3(job)
	switch a {
	case "int":
		if b == "literal-strings" {
			// decimal strings are read in base 10 exactly as strconv.Atoi reads them
			lits := []string{"010", "007", "-0012", "+5", "00501", "0x10", "0b11", "0o17", "1_000", "08", "12", "-0", "9223372036854775807"}
			s := lits[v.Choice("lit", len(lits))]
			want, err := strconv.Atoi(s)
			d := 77
			errs := z.Int().Parse(s, &d)
			if err != nil {
				v.Assert(len(errs) == 1 && errs[0].Code == "coerce" && d == 77, "C03:int-coercion")
			} else {
				c03ok(len(errs))
				v.Assert(d == want, "C03:int-coercion")
			}
			var d64 int64
			e64 := z.Int64().Parse(s, &d64)
			v.Assert((len(e64) == 0) == (err == nil) && (err != nil || d64 == int64(want)), "C03:int64-coercion")
			return
		}
		n := v.Int("n")
		d := 7
		var in any
		want := n
		switch b {
		case "int":
			in = n
		case "int32":
			x := v.Int32("x")
			in, want = x, int(x)
		case "int64":
			in = int64(n)
		case "float64":
			f := v.Float64("f")
			v.Assume(v.And(f > -9e18, f < 9e18))
			in, want = f, int(f) // truncation toward zero
		case "decstr":
			in = v.Itoa(n)
		case "bool":
			bb := v.Bool("b")
			in, want = bb, v.B2I(bb)
		}
		c03ok(len(z.Int().Parse(in, &d)))
		v.Assert(d == want, "C03:int-coercion")
	case "int64":
		n := v.Int("n")
		d := int64(7)
		var in any = n
		if b == "decstr" {
			in = v.Itoa(n)
		}
		c03ok(len(z.Int64().Parse(in, &d)))
		v.Assert(d == int64(n), "C03:int64-coercion")
	case "int32":
		x := v.Int32("x")
		d := int32(7)
		c03ok(len(z.Int32().Parse(x, &d)))
		v.Assert(d == x, "C03:int32-coercion")
	case "float":
		d := 7.5
		var in any
		var want float64
		switch b {
		case "float64":
			f := v.Float64("f")
			in, want = f, f
		case "int":
			n := v.Int("n")
			in, want = n, float64(n)
		case "float32":
			g := v.Float32("g")
			in, want = g, float64(g)
		case "fltstr":
			f := v.Float64("f")
			in, want = v.Ftoa(f), f
		}
		c03ok(len(z.Float64().Parse(in, &d)))
		v.Assert(v.SameBits(d, want), "C03:float-coercion")
	case "float32":
		g := v.Float32("g")
		d := float32(7.5)
		c03ok(len(z.Float32().Parse(g, &d)))
		v.Assert(v.SameBits(float64(d), float64(g)), "C03:float32-coercion")
	case "bool":
		d := v.Bool("pre")
		var in any
		var want bool
		switch b {
		case "bool":
			x := v.Bool("x")
			in, want = x, x
		case "words":
			words := []string{"on", "off", "true", "false", "1", "0", "t", "f", "T", "F", "TRUE", "FALSE", "True", "False"}
			k := v.Choice("word", len(words))
			in = words[k]
			want = k%2 == 0
		case "int":
			k := v.Choice("k", 2)
			in, want = k, k == 1
		}
		c03ok(len(z.Bool().Parse(in, &d)))
		v.Assert(d == want, "C03:bool-coercion")
	case "string":
		d := "pre"
		if b == "blank-untouched" {
			// a string of Unicode white space only is an absent value: an optional node leaves its
			// destination untouched, a Default replaces it, a pointer stays nil (ALL byte strings <=2, 3 thorough)
			s := v.String("s", 2+v.Tier())
			n := 0
			for n < len(s) {
				n++
			}
			v.Assume(refBlank(s, n))
			var ds struct {
				A string
				B string
				P *string
				L []string
			}
			ds.A = "keep"
			c03ok(len(z.Struct(z.Schema{"a": z.String(), "b": z.String().Default("dflt"), "p": z.Ptr(z.String()), "l": z.Slice(z.String())}).
				Parse(map[string]any{"a": s, "b": s, "p": s, "l": s}, &ds)))
			v.Assert(ds.A == "keep" && ds.B == "dflt" && ds.P == nil && ds.L == nil, "C03:absent-optional-written")
			return
		}
		if b == "string" {
			s := v.String("s", 3+v.Tier())
			n := 0
			for n < len(s) {
				n++
			}
			v.Assume(!refBlank(s, n))
			c03ok(len(z.String().Parse(s, &d)))
			v.Assert(d == s, "C03:string-identity")
			return
		}
		vals := []any{12, -5, int64(1 << 40), 1.5, 1234567.0, 0.00001, 1e21, float32(2.5), true, false, int32(7), uint8(200)}
		x := vals[v.Choice("val", len(vals))]
		c03ok(len(z.String().Parse(x, &d)))
		v.Assert(d == fmt.Sprintf("%v", x), "C03:string-is-%v-rendering")
	case "time":
		pre := time.Unix(77, 0).UTC()
		d := pre
		switch b {
		case "time":
			sec := v.Int64("sec")
			v.Assume(v.And(sec > -1<<50, sec < 1<<50))
			x := time.Unix(sec, 9).UTC()
			c03ok(len(z.Time().Parse(x, &d)))
			v.Assert(d.Equal(x), "C03:time-identity")
		case "rfc3339":
			ss := []string{"2024-03-05T10:20:30Z", "1999-12-31T23:59:59+02:00", "2024-02-29T00:00:00.123456789Z"}
			s := ss[v.Choice("s", len(ss))]
			c03ok(len(z.Time().Parse(s, &d)))
			want, _ := time.Parse(time.RFC3339, s)
			v.Assert(d.Equal(want), "C03:time-rfc3339")
		case "unix-int":
			sec := v.Int("sec")
			v.Assume(v.And(sec > -1<<50, sec < 1<<50))
			c03ok(len(z.Time().Parse(sec, &d)))
			v.Assert(v.And(d.Unix() == int64(sec), d.Nanosecond() == 0), "C03:time-unix-seconds")
		case "unix-int64":
			sec := v.Int64("sec")
			v.Assume(v.And(sec > -1<<50, sec < 1<<50))
			c03ok(len(z.Time().Parse(sec, &d)))
			v.Assert(v.And(d.Unix() == sec, d.Nanosecond() == 0), "C03:time-unix-seconds")
		case "format":
			layouts := []string{"2006-01-02", "02/01/2006 15:04", time.RFC1123, "20060102", "2006", "150405", "20060102150405"}
			inputs := []string{"2024-03-05", "05/03/2024 10:20", "Tue, 05 Mar 2024 10:20:30 UTC", "20240305", "1999", "102030", "20240305102030"}
			k := v.Choice("layout", len(layouts))
			c03ok(len(z.Time(z.Time.Format(layouts[k])).Parse(inputs[k], &d)))
			want, _ := time.Parse(layouts[k], inputs[k])
			v.Assert(d.Equal(want), "C03:time-format-layout")
		case "zero-value":
			// time.Time{} is a value like any other in Parse (only nil and blank strings are absent):
			// it is written to the destination and a Default does not replace it
			def := time.Unix(5000, 0).UTC()
			var zero time.Time
			c03ok(len(z.Time().Parse(zero, &d)))
			v.Assert(d.Equal(zero), "C03:time-identity")
			d = pre
			c03ok(len(z.Time().Default(def).Parse(zero, &d)))
			v.Assert(d.Equal(zero), "C03:time-identity")
			var ds struct {
				T time.Time
				L []time.Time
				P *time.Time
			}
			ds.T = pre
			c03ok(len(z.Struct(z.Schema{"t": z.Time().Default(def), "l": z.Slice(z.Time().Default(def)), "p": z.Ptr(z.Time())}).
				Parse(map[string]any{"t": zero, "l": []any{zero, pre}, "p": zero}, &ds)))
			v.Assert(ds.T.Equal(zero) && len(ds.L) == 2 && ds.L[0].Equal(zero) && ds.P != nil && ds.P.Equal(zero), "C03:time-identity")
		case "formatfunc":
			want := time.Unix(123456, 0).UTC()
			called := 0
			got := ""
			s := z.Time(z.Time.FormatFunc(func(data string) (time.Time, error) { called++; got = data; return want, nil }))
			in := visible("in", 3) // every non-blank string goes to the function, digits included (epoch millis, yyyymmdd, ...)
			v.Assume(len(in) > 0)
			c03ok(len(s.Parse(in, &d)))
			v.Assert(called == 1 && got == in, "C03:time-formatfunc-not-used")
			v.Assert(d.Equal(want), "C03:time-formatfunc-result")
		}
	case "option":
		k := v.Int("k")
		co := func(x any) (any, error) { return k, nil }
		switch b {
		case "withcoercer-int":
			d := 7
			c03ok(len(z.Int(z.WithCoercer(co)).Parse("whatever", &d)))
			v.Assert(d == k, "C03:withcoercer-result")
			// and only that schema
			d2 := 7
			errs := z.Int().Parse("whatever", &d2)
			v.Assert(len(errs) == 1 && d2 == 7, "C03:withcoercer-leaked")
		case "withcoercer-string":
			d := "pre"
			cs := func(x any) (any, error) { return "co", nil }
			c03ok(len(z.String(z.WithCoercer(cs)).Parse(5, &d)))
			v.Assert(d == "co", "C03:withcoercer-result")
		case "withcoercer-ptr":
			var d *int
			s := z.Ptr(z.Int())
			z.WithCoercer(co)(s) // through Ptr the pointed-to schema is configured
			c03ok(len(s.Parse("whatever", &d)))
			v.Assert(d != nil && *d == k, "C03:withcoercer-through-ptr")
		case "withcoercer-slice":
			// a slice schema's own coercer sees every input, slices included
			calls := 0
			cs := func(x any) (any, error) { calls++; return []any{k, k}, nil }
			var d []int
			c03ok(len(z.Slice(z.Int(), z.WithCoercer(cs)).Parse([]any{1}, &d)))
			v.Assert(calls == 1 && len(d) == 2 && d[0] == k, "C03:withcoercer-result")
			var pd *[]int
			ps := z.Ptr(z.Slice(z.Int()))
			z.WithCoercer(cs)(ps)
			c03ok(len(ps.Parse([]int{1, 2, 3}, &pd)))
			v.Assert(calls == 2 && pd != nil && len(*pd) == 2, "C03:withcoercer-through-ptr")
		case "global-override-widths":
			// the width adapters (Int64, Int32, Float32) honour a global override made before the
			// schema is used
			old, oldF := conf.Coercers.Int, conf.Coercers.Float64
			conf.Coercers.Int = co
			f := v.Float64("fco")
			v.Assume(v.And(f > -1e30, f < 1e30))
			conf.Coercers.Float64 = func(x any) (any, error) { return f, nil }
			var d64 int64
			var d32 int32
			var f32 float32
			v.Assume(v.And(k > -1000000, k < 1000000))
			e1 := z.Int64().Parse("whatever", &d64)
			e2 := z.Int32().Parse(2.7, &d32)
			e3 := z.Float32().Parse("whatever", &f32)
			conf.Coercers.Int, conf.Coercers.Float64 = old, oldF
			c03ok(len(e1) + len(e2) + len(e3))
			v.Assert(d64 == int64(k) && d32 == int32(k), "C03:global-coercer-override")
			v.Assert(v.SameBits(float64(f32), float64(float32(f))), "C03:global-coercer-override")
		case "global-override":
			old := conf.Coercers.Int
			conf.Coercers.Int = co
			s := z.Int()
			conf.Coercers.Int = old
			d := 7
			c03ok(len(s.Parse("whatever", &d)))
			v.Assert(d == k, "C03:global-coercer-override")
		}
	case "slice":
		switch b {
		case "list":
			n := v.Choice("len", 4)
			in := make([]any, n)
			xs := make([]int, n)
			for i := range in {
				xs[i] = v.Int("e")
				if v.Choice("as-string", 2) == 1 {
					in[i] = v.Itoa(xs[i])
				} else {
					in[i] = xs[i]
				}
			}
			d := []int{9, 9, 9, 9, 9}
			errs := z.Slice(z.Int()).Parse(in, &d)
			c03ok(len(errs))
			v.Assert(len(d) == n, "C03:slice-length")
			ok := true
			for i := 0; i < n && i < len(d); i++ {
				ok = v.And(ok, d[i] == xs[i])
			}
			v.Assert(ok, "C03:slice-order-and-values")
		case "scalar":
			x := v.Int("x")
			var d []int
			c03ok(len(z.Slice(z.Int()).Parse(x, &d)))
			v.Assert(len(d) == 1 && d[0] == x, "C03:scalar-to-one-element")
		case "repeated-params":
			// a repeated request parameter is a list: one leaf per occurrence, in order, blank
			// occurrences included (form and query front ends)
			x, y := 7, -12
			ta := v.String("ta", 2) // (symbolic request bytes are letters or digits)
			v.Assume(len(ta) > 0)
			qs := "ids=7&ids=&ids=-12&tags=" + ta + "&tags=&tags=b&notes=&notes=n"
			req := c11Request("GET", "", "", qs)
			if v.Choice("form", 2) == 1 {
				req = c11Request("POST", "application/x-www-form-urlencoded", qs, "")
			}
			var d struct {
				Ids   []int
				Tags  []string
				Notes []*string
			}
			errs := z.Struct(z.Schema{"ids": z.Slice(z.Int()), "tags": z.Slice(z.String()), "notes": z.Slice(z.Ptr(z.String()))}).Parse(zhttp.Request(req), &d)
			c03ok(len(errs))
			v.Assert(len(d.Ids) == 3 && len(d.Tags) == 3 && len(d.Notes) == 2, "C03:slice-length")
			v.Assert(len(d.Ids) == 3 && d.Ids[0] == x && d.Ids[1] == 0 && d.Ids[2] == y, "C03:slice-order-and-values")
			v.Assert(len(d.Tags) == 3 && d.Tags[0] == ta && d.Tags[1] == "" && d.Tags[2] == "b", "C03:slice-order-and-values")
			v.Assert(len(d.Notes) == 2 && d.Notes[0] == nil && d.Notes[1] != nil && *d.Notes[1] == "n", "C03:slice-order-and-values")
		case "typed":
			a1, a2 := visible("a", 2), visible("b", 2)
			v.Assume(v.And(len(a1) > 0, len(a2) > 0))
			var d []string
			c03ok(len(z.Slice(z.String()).Parse([]string{a1, a2}, &d)))
			v.Assert(len(d) == 2 && d[0] == a1 && d[1] == a2, "C03:typed-slice")
		}
	case "struct":
		switch b {
		case "unnamed-untouched":
			var d Dest
			u, j := v.Int("u"), v.Int("j")
			d.U, d.J, d.T = u, j, "keep"
			x := v.Int("x")
			c03ok(len(z.Struct(z.Schema{"i": z.Int()}).Parse(map[string]any{"i": x, "u": 1, "j": 2, "t": "zz", "U": 3}, &d)))
			v.Assert(d.I == x, "C03:field-value")
			v.Assert(d.U == u && d.J == j && d.T == "keep", "C03:unnamed-field-written")
		case "absent-untouched":
			var d Dest
			i0 := v.Int("i0")
			d.I, d.S = i0, "keep"
			c03ok(len(z.Struct(z.Schema{"i": z.Int(), "s": z.String(), "pI": z.Ptr(z.Int()), "lI": z.Slice(z.Int())}).Parse(map[string]any{"s": nil}, &d)))
			v.Assert(d.I == i0 && d.S == "keep", "C03:absent-optional-written")
			v.Assert(d.PI == nil && d.LI == nil, "C03:absent-pointer-or-slice-allocated")
		case "pointer-prealloc":
			// a destination pointer that is already set is filled in place: fields the schema does
			// not name keep their values and the caller's pointee receives the result
			var d Dest
			x, keep := v.Int("x"), visible("keep", 2)
			mine := &Inner{X: -1, Y: keep}
			d.PN = mine
			c03ok(len(z.Struct(z.Schema{"pN": z.Ptr(z.Struct(z.Schema{"x": z.Int()}))}).Parse(map[string]any{"pN": map[string]any{"x": x}}, &d)))
			v.Assert(d.PN == mine && mine.X == x, "C03:present-pointer-replaced")
			v.Assert(mine.Y == keep, "C03:unnamed-field-written")
			pi := 5
			d.PI = &pi
			c03ok(len(z.Struct(z.Schema{"pI": z.Ptr(z.Int())}).Parse(map[string]any{"pI": x}, &d)))
			v.Assert(d.PI == &pi && pi == x, "C03:present-pointer-replaced")
		case "pointer":
			var d Dest
			x := v.Int("x")
			c03ok(len(z.Struct(z.Schema{"pI": z.Ptr(z.Int()), "pN": z.Ptr(z.Struct(z.Schema{"x": z.Int()}))}).Parse(map[string]any{"pI": x, "pN": map[string]any{"x": x}}, &d)))
			v.Assert(d.PI != nil && *d.PI == x, "C03:present-pointer-allocated")
			v.Assert(d.PN != nil && d.PN.X == x, "C03:present-struct-pointer-allocated")
		}
	}
}
