package h

import (
	"errors"
	"io"
	"net/http"
	"net/url"
	"regexp"
	"strings"
	"time"

	z "github.com/Oudwins/zog"
	"github.com/Oudwins/zog/conf"
	"github.com/Oudwins/zog/i18n"
	"github.com/Oudwins/zog/i18n/en"
	"github.com/Oudwins/zog/i18n/es"
	"github.com/Oudwins/zog/parsers/zjson"
	"github.com/Oudwins/zog/zconst"
	"github.com/Oudwins/zog/zhttp"
	v "github.com/Oudwins/zog/zzverif"
)

func init() { Registry["C11"] = C11_Run }

// C11 — every issue is fully described and its message is chosen most-specific-first.
//
//  catalogue/<lang>  every built-in test of every schema type (a finite catalogue, enumerated
//                    by the engine as a choice; no symbolic variables: the engine is an
//                    exhaustive executor of the real code here) must produce an issue with
//                    the documented code, the node's type, its parameters, a reference to the
//                    value and a non-empty message without unresolved {{placeholders}}
//  precedence        test-level > execution-level > global formatter, with formatter presence
//                    at each level and the failing input symbolic
//  i18n              language named in this execution's context, else the default language

type c11case struct {
	name  string
	code  string
	dtype string
	param string // params key that must be present ("" = none required)
	run   func(opts ...z.ExecOption) []*z.ZogIssue
}

func flat(m z.ZogIssueMap) []*z.ZogIssue {
	var out []*z.ZogIssue
	for k, l := range m {
		if k != "$first" {
			out = append(out, l...)
		}
	}
	return out
}

var c11re = regexp.MustCompile("^z+$")
var errPre = errors.New("preprocess failed")

func c11Request(method, ctype, body, query string) *http.Request {
	r := &http.Request{Method: method, Header: http.Header{}, URL: &url.URL{RawQuery: query}}
	if ctype != "" {
		r.Header["Content-Type"] = []string{ctype}
	}
	r.Body = io.NopCloser(strings.NewReader(body))
	return r
}

func c11Catalogue() []c11case {
	t0 := time.Unix(1000, 0).UTC()
	str := func(s *z.StringSchema[string], in any) func(...z.ExecOption) []*z.ZogIssue {
		return func(o ...z.ExecOption) []*z.ZogIssue { var d string; return s.Parse(in, &d, o...) }
	}
	num := func(s *z.NumberSchema[int], in any) func(...z.ExecOption) []*z.ZogIssue {
		return func(o ...z.ExecOption) []*z.ZogIssue { var d int; return s.Parse(in, &d, o...) }
	}
	flt := func(s *z.NumberSchema[float64], in any) func(...z.ExecOption) []*z.ZogIssue {
		return func(o ...z.ExecOption) []*z.ZogIssue { var d float64; return s.Parse(in, &d, o...) }
	}
	tim := func(s *z.TimeSchema, in any) func(...z.ExecOption) []*z.ZogIssue {
		return func(o ...z.ExecOption) []*z.ZogIssue { var d time.Time; return s.Parse(in, &d, o...) }
	}
	bl := func(s *z.BoolSchema[bool], in any) func(...z.ExecOption) []*z.ZogIssue {
		return func(o ...z.ExecOption) []*z.ZogIssue { var d bool; return s.Parse(in, &d, o...) }
	}
	sl := func(s *z.SliceSchema, in any) func(...z.ExecOption) []*z.ZogIssue {
		return func(o ...z.ExecOption) []*z.ZogIssue { var d []int; return flat(s.Parse(in, &d, o...)) }
	}
	type S struct{ A int }
	return []c11case{
		{"string/required", "required", "string", "", str(z.String().Required(), nil)},
		{"string/min", "min", "string", "min", str(z.String().Min(5), "ab")},
		{"string/max", "max", "string", "max", str(z.String().Max(1), "abc")},
		{"string/len", "len", "string", "len", str(z.String().Len(5), "ab")},
		{"string/email", "email", "string", "", str(z.String().Email(), "ab")},
		{"string/uuid", "uuid", "string", "", str(z.String().UUID(), "ab")},
		{"string/url", "url", "string", "", str(z.String().URL(), "ab")},
		{"string/match", "match", "string", "match", str(z.String().Match(c11re), "ab")},
		{"string/prefix", "prefix", "string", "prefix", str(z.String().HasPrefix("x"), "ab")},
		{"string/suffix", "suffix", "string", "suffix", str(z.String().HasSuffix("x"), "ab")},
		{"string/contains", "contained", "string", "contained", str(z.String().Contains("x"), "ab")},
		{"string/upper", "contains_upper", "string", "", str(z.String().ContainsUpper(), "ab")},
		{"string/digit", "contains_digit", "string", "", str(z.String().ContainsDigit(), "ab")},
		{"string/special", "contains_special", "string", "", str(z.String().ContainsSpecial(), "ab")},
		{"string/oneof", "one_of_options", "string", "one_of_options", str(z.String().OneOf([]string{"x", "y"}), "ab")},
		{"string/not-len", "not_len", "string", "len", str(z.String().Not().Len(2), "ab")},
		{"string/not-email", "not_email", "string", "", str(z.String().Not().Email(), "a@b.co")},
		{"string/not-prefix", "not_prefix", "string", "prefix", str(z.String().Not().HasPrefix("a"), "ab")},
		{"string/not-suffix", "not_suffix", "string", "suffix", str(z.String().Not().HasSuffix("b"), "ab")},
		{"string/not-contains", "not_contained", "string", "contained", str(z.String().Not().Contains("a"), "ab")},
		{"string/not-upper", "not_contains_upper", "string", "", str(z.String().Not().ContainsUpper(), "Ab")},
		{"string/not-digit", "not_contains_digit", "string", "", str(z.String().Not().ContainsDigit(), "a1")},
		{"string/not-special", "not_contains_special", "string", "", str(z.String().Not().ContainsSpecial(), "a!")},
		{"string/not-oneof", "not_one_of_options", "string", "one_of_options", str(z.String().Not().OneOf([]string{"ab"}), "ab")},
		{"string/not-uuid", "not_uuid", "string", "", str(z.String().Not().UUID(), "123e4567-e89b-12d3-a456-426614174000")},
		{"string/not-url", "not_url", "string", "", str(z.String().Not().URL(), "http://a.b")},
		{"string/not-match", "not_match", "string", "match", str(z.String().Not().Match(c11re), "zz")},
		{"number/required", "required", "number", "", num(z.Int().Required(), nil)},
		{"number/coerce", "coerce", "number", "", num(z.Int(), "zz")},
		{"number/gt", "gt", "number", "gt", num(z.Int().GT(5), 1)},
		{"number/gte", "gte", "number", "gte", num(z.Int().GTE(5), 1)},
		{"number/lt", "lt", "number", "lt", num(z.Int().LT(5), 9)},
		{"number/lte", "lte", "number", "lte", num(z.Int().LTE(5), 9)},
		{"number/eq", "eq", "number", "eq", num(z.Int().EQ(5), 9)},
		{"number/oneof", "one_of_options", "number", "one_of_options", num(z.Int().OneOf([]int{1, 2}), 9)},
		{"float/gt", "gt", "number", "gt", flt(z.Float64().GT(5), 1.5)},
		{"float/coerce", "coerce", "number", "", flt(z.Float64(), "zz")},
		{"bool/required", "required", "bool", "", bl(z.Bool().Required(), nil)},
		{"bool/coerce", "coerce", "bool", "", bl(z.Bool(), "zz")},
		{"bool/true", "eq", "bool", "eq", bl(z.Bool().True(), false)},
		{"bool/false", "eq", "bool", "eq", bl(z.Bool().False(), true)},
		{"time/required", "required", "time", "", tim(z.Time().Required(), nil)},
		{"time/coerce", "coerce", "time", "", tim(z.Time(), "zz")},
		{"time/after", "after", "time", "after", tim(z.Time().After(t0), time.Unix(5, 0))},
		{"time/before", "before", "time", "before", tim(z.Time().Before(t0), time.Unix(5000, 0))},
		{"time/eq", "eq", "time", "eq", tim(z.Time().EQ(t0), time.Unix(5, 0))},
		{"slice/required", "required", "slice", "", sl(z.Slice(z.Int()).Required(), nil)},
		{"slice/min", "min", "slice", "min", sl(z.Slice(z.Int()).Min(3), []any{1})},
		{"slice/max", "max", "slice", "max", sl(z.Slice(z.Int()).Max(0), []any{1})},
		{"slice/len", "len", "slice", "len", sl(z.Slice(z.Int()).Len(3), []any{1})},
		{"slice/contains", "contained", "slice", "contained", sl(z.Slice(z.Int()).Contains(7), []any{1})},
		{"ptr/not_nil", "not_nil", "number", "", func(o ...z.ExecOption) []*z.ZogIssue {
			var d *int
			return flat(z.Ptr(z.Int()).NotNil().Parse(nil, &d, o...))
		}},
		{"struct/coerce", "coerce", "struct", "", func(o ...z.ExecOption) []*z.ZogIssue {
			var d S
			return flat(z.Struct(z.Schema{"a": z.Int()}).Parse(5, &d, o...))
		}},
		{"custom/test", "custom", "custom", "", func(o ...z.ExecOption) []*z.ZogIssue {
			var d int
			return z.CustomFunc(func(p *int, c z.Ctx) bool { return false }, z.IssueCode("custom")).Parse(1, &d, o...)
		}},
		{"custom/coerce", "coerce", "custom", "", func(o ...z.ExecOption) []*z.ZogIssue {
			var d int
			return z.CustomFunc(func(p *int, c z.Ctx) bool { return true }).Parse("zz", &d, o...)
		}},
		{"preprocess/mismatch", "coerce", "number", "", func(o ...z.ExecOption) []*z.ZogIssue {
			var d S
			return flat(z.Struct(z.Schema{"a": z.Preprocess(func(s int, c z.Ctx) (int, error) { return s, nil }, z.Int())}).Parse(map[string]any{"a": "zz"}, &d, o...))
		}},
		{"preprocess-ptr/error", "", "string", "", func(o ...z.ExecOption) []*z.ZogIssue {
			var d struct{ A *string }
			return flat(z.Struct(z.Schema{"a": z.Preprocess(func(s string, c z.Ctx) (string, error) { return "", errPre }, z.Ptr(z.String()))}).Parse(map[string]any{"a": "x"}, &d, o...))
		}},
		{"preprocess-ptr/mismatch", "coerce", "string", "", func(o ...z.ExecOption) []*z.ZogIssue {
			var d struct{ A *string }
			return flat(z.Struct(z.Schema{"a": z.Preprocess(func(s string, c z.Ctx) (string, error) { return s, nil }, z.Ptr(z.String()))}).Parse(map[string]any{"a": 5}, &d, o...))
		}},
		{"testfunc/custom-code", "my_code", "number", "", num(z.Int().TestFunc(func(x any, c z.Ctx) bool { return false }, z.IssueCode("my_code")), 1)},
		{"zhttp/invalid-json", "invalid_json", "struct", "", func(o ...z.ExecOption) []*z.ZogIssue {
			var d S
			return flat(z.Struct(z.Schema{"a": z.Int()}).Parse(zhttp.Request(c11Request("POST", "application/json", "{", "")), &d, o...))
		}},
		{"zhttp/invalid-json-null", "invalid_json", "struct", "", func(o ...z.ExecOption) []*z.ZogIssue {
			var d S
			return flat(z.Struct(z.Schema{"a": z.Int()}).Parse(zhttp.Request(c11Request("POST", "application/json", "null", "")), &d, o...))
		}},
		{"zhttp/invalid-form", "invalid_form", "struct", "", func(o ...z.ExecOption) []*z.ZogIssue {
			var d S
			return flat(z.Struct(z.Schema{"a": z.Int()}).Parse(zhttp.Request(c11Request("POST", "application/x-www-form-urlencoded", "a=%zz", "")), &d, o...))
		}},
		{"zhttp/ptr-root-invalid-json", "invalid_json", "struct", "", func(o ...z.ExecOption) []*z.ZogIssue {
			var d *S
			return flat(z.Ptr(z.Struct(z.Schema{"a": z.Int()})).Parse(zhttp.Request(c11Request("POST", "application/json", "{", "")), &d, o...))
		}},
		{"zhttp/ptr-root-invalid-form", "invalid_form", "struct", "", func(o ...z.ExecOption) []*z.ZogIssue {
			var d *S
			return flat(z.Ptr(z.Struct(z.Schema{"a": z.Int()})).Parse(zhttp.Request(c11Request("POST", "application/x-www-form-urlencoded", "a=%zz", "")), &d, o...))
		}},
		{"zjson/ptr-root-null", "invalid_json", "struct", "", func(o ...z.ExecOption) []*z.ZogIssue {
			var d *S
			return flat(z.Ptr(z.Struct(z.Schema{"a": z.Int()})).Parse(zjson.Decode(strings.NewReader("null")), &d, o...))
		}},
	}
}

func C11_Jobs() []string {
	out := []string{"catalogue/en", "catalogue/es", "catalogue/default", "precedence", "i18n", "value-ref", "multi-param", "decode-twice", "global-roots", "exec-roots", "i18n-reinstall", "i18n-names", "param-rendering", "nested-record-type"}
	return out
}
func C11_Covers() []string { return []string{"catalogue-case", "precedence-case"} }

func C11_Run(job string) {
	a, b, _, _ := split3(job)
	switch a {
	case "catalogue":
		cases := c11Catalogue()
		c := cases[v.Choice("case", len(cases))]
		var opts []z.ExecOption
		switch b {
		case "en":
			opts = append(opts, z.WithIssueFormatter(conf.NewDefaultFormatter(en.Map)))
		case "es":
			opts = append(opts, z.WithIssueFormatter(conf.NewDefaultFormatter(es.Map)))
		}
		issues := c.run(opts...)
		v.Obs(c.name)
		v.Cover("catalogue-case")
		v.Assert(len(issues) == 1, "C11:expected-exactly-one-issue")
		e := issues[0]
		v.Assert(e.Code == c.code, "C11:issue-code")
		v.Assert(e.Dtype == c.dtype, "C11:issue-type")
		if c.param != "" {
			_, ok := e.Params[c.param]
			v.Assert(ok, "C11:issue-params")
		}
		v.Assert(e.Message != "", "C11:empty-message")
		v.Assert(!strings.Contains(e.Message, "{{"), "C11:unresolved-placeholder")
		// the message is the one of the language map in force: exactly its template when the
		// template has no placeholder
		lm := map[string]zconst.LangMap{"en": en.Map, "es": es.Map}[b]
		if lm != nil && c.dtype != "" {
			if tmpl, ok := lm[zconst.ZogType(c.dtype)][c.code]; ok && !strings.Contains(tmpl, "{{") {
				v.Assert(e.Message == tmpl, "C11:message-precedence")
			}
		}
	case "nested-record-type":
		// an issue raised at a nested record (not a record at all; a failing struct-level test) has the
		// type "struct" and the message a root record gets for the same failure, whichever siblings
		// were visited before it
		v.MapOrderChoice(true)
		type rec struct{ X int }
		var d struct {
			A int
			S string
			N rec
		}
		failing := v.Choice("failure", 2) == 1
		mk := func() *z.StructSchema {
			return z.Struct(z.Schema{"x": z.Int()}).TestFunc(func(p any, c z.Ctx) bool { return !failing })
		}
		var in any = 5
		if failing {
			in = map[string]any{"x": 1}
		}
		var r rec
		root := mk().Parse(in, &r)
		errs := z.Struct(z.Schema{"a": z.Int(), "s": z.String(), "n": mk()}).Parse(map[string]any{"a": 1, "s": "x", "n": in}, &d)
		v.Cover("catalogue-case")
		v.Assert(len(errs["n"]) == 1 && len(root["$root"]) == 1, "C11:expected-exactly-one-issue")
		e, w := errs["n"][0], root["$root"][0]
		v.Assert(e.Dtype == "struct" && e.Dtype == w.Dtype, "C11:issue-type")
		v.Assert(e.Code == w.Code && e.Message == w.Message, "C11:message-precedence")
	case "multi-param":
		// every {{placeholder}} of a message is substituted, whatever the order in which the
		// params map is iterated (the engine permutes the range in the formatter)
		lm := zconst.LangMap{"number": {"between": "must be between {{lo}} and {{hi}} (got {{value}})", "fallback": "invalid"}}
		x := v.Int("x")
		v.Assume(x < 0)
		var d int
		errs := z.Int().TestFunc(func(val any, c z.Ctx) bool { return false }, z.IssueCode("between"), z.Params(map[string]any{"lo": 18, "hi": 65, "unused": 1})).
			Parse(x, &d, z.WithIssueFormatter(conf.NewDefaultFormatter(lm)))
		v.Assert(len(errs) == 1, "C11:expected-exactly-one-issue")
		v.Assert(strings.HasPrefix(errs[0].Message, "must be between 18 and 65 (got "), "C11:unresolved-placeholder")
		v.Assert(!strings.Contains(errs[0].Message, "{{"), "C11:unresolved-placeholder")
		v.Cover("precedence-case")
	case "decode-twice":
		// two executions that fail to decode: each uses its own formatter
		bodies := []string{"null", "{", "[1]"}
		body := bodies[v.Choice("body", len(bodies))]
		mk := func(tag string) z.ExecOption {
			return z.WithIssueFormatter(func(e *z.ZogIssue, c z.Ctx) { e.SetMessage(tag + ":" + e.Code) })
		}
		type S struct{ A int }
		var d S
		e1 := z.Struct(z.Schema{"a": z.Int()}).Parse(zhttp.Request(c11Request("POST", "application/json", body, "")), &d, mk("A"))
		e2 := z.Struct(z.Schema{"a": z.Int()}).Parse(zjson.Decode(strings.NewReader(body)), &d, mk("B"))
		e3 := z.Struct(z.Schema{"a": z.Int()}).Parse(zjson.Decode(strings.NewReader(body)), &d)
		v.Assert(len(e1["$root"]) == 1 && e1["$root"][0].Message == "A:invalid_json", "C11:message-precedence")
		v.Assert(len(e2["$root"]) == 1 && e2["$root"][0].Message == "B:invalid_json", "C11:message-precedence")
		v.Assert(len(e3["$root"]) == 1 && e3["$root"][0].Message == "invalid json body", "C11:message-precedence")
		v.Assert(e1["$root"][0] != e2["$root"][0], "C11:issue-object-shared-between-executions")
		v.Cover("precedence-case")
	case "value-ref":
		// the issue refers to the offending value
		x := v.Int("x")
		v.Assume(!(x > 100))
		var d int
		errs := z.Int().GT(100).Parse(x, &d)
		v.Assert(len(errs) == 1, "C11:expected-exactly-one-issue")
		switch val := errs[0].Value.(type) {
		case *int:
			v.Assert(*val == x, "C11:issue-value")
		case int:
			v.Assert(val == x, "C11:issue-value")
		default:
			v.Fail("C11:issue-value")
		}
		var ds string
		es2 := z.Int().Parse("zz", &d)
		v.Assert(len(es2) == 1 && eqAny(es2[0].Value, "zz"), "C11:issue-value")
		_ = ds
		v.Cover("catalogue-case")
	case "precedence":
		// presence of a formatter at each level is symbolic; so is the (failing) input
		hasTest, hasExec, hasGlobal := v.Bool("test-level"), v.Bool("exec-level"), v.Bool("global-level")
		x := v.Int("x")
		v.Assume(!(x > 100))
		old := conf.IssueFormatter
		if hasGlobal {
			conf.IssueFormatter = func(e *z.ZogIssue, c z.Ctx) { e.SetMessage("GLOBAL") }
		}
		s := z.Int()
		if hasTest {
			if v.Choice("message-or-func", 2) == 0 {
				s = s.GT(100, z.Message("TEST"))
			} else {
				s = s.GT(100, z.MessageFunc(func(e *z.ZogIssue, c z.Ctx) { e.SetMessage("TEST") }))
			}
		} else {
			s = s.GT(100)
		}
		var opts []z.ExecOption
		if hasExec {
			opts = append(opts, z.WithIssueFormatter(func(e *z.ZogIssue, c z.Ctx) { e.SetMessage("EXEC") }))
		}
		var d int
		errs := s.Parse(x, &d, opts...)
		conf.IssueFormatter = old
		v.Assert(len(errs) == 1, "C11:expected-exactly-one-issue")
		want := "number must be greater than 100"
		if hasGlobal {
			want = "GLOBAL"
		}
		if hasExec {
			want = "EXEC"
		}
		if hasTest {
			want = "TEST"
		}
		v.Cover("precedence-case")
		v.Assert(errs[0].Message == want, "C11:message-precedence")
	case "global-roots", "exec-roots":
		// the formatter in force (global, or this execution's) formats the issues of EVERY kind of
		// root schema, in Parse and in Validate
		old := conf.IssueFormatter
		var opts []z.ExecOption
		if a == "global-roots" {
			conf.IssueFormatter = func(e *z.ZogIssue, c z.Ctx) { e.SetMessage("F:" + e.Code) }
		} else {
			opts = append(opts, z.WithIssueFormatter(func(e *z.ZogIssue, c z.Ctx) { e.SetMessage("F:" + e.Code) }))
		}
		var msgs []string
		add := func(l z.ZogIssueList) {
			for _, e := range l {
				msgs = append(msgs, e.Message)
			}
		}
		addM := func(m z.ZogIssueMap) {
			for k, l := range m {
				if k != "$first" {
					add(l)
				}
			}
		}
		validate := v.Choice("validate", 2) == 1
		root := v.Choice("root", 10)
		t0 := time.Unix(1000, 0).UTC()
		switch root {
		case 0:
			d := 5
			if validate {
				add(z.Int().GT(100).Validate(&d, opts...))
			} else {
				add(z.Int().GT(100).Parse(5, &d, opts...))
			}
		case 1:
			d := 5.0
			if validate {
				add(z.Float64().GT(100).Validate(&d, opts...))
			} else {
				add(z.Float64().GT(100).Parse(5, &d, opts...))
			}
		case 2:
			d := "ab"
			if validate {
				add(z.String().Min(5).Validate(&d, opts...))
			} else {
				add(z.String().Min(5).Parse("ab", &d, opts...))
			}
		case 3:
			d := true
			if validate {
				add(z.Bool().False().Validate(&d, opts...))
			} else {
				add(z.Bool().False().Parse(true, &d, opts...))
			}
		case 4:
			d := time.Unix(5, 0).UTC()
			if validate {
				add(z.Time().After(t0).Validate(&d, opts...))
			} else {
				add(z.Time().After(t0).Parse(d, &d, opts...))
			}
		case 5:
			d := []int{1}
			if validate {
				addM(z.Slice(z.Int()).Min(3).Validate(&d, opts...))
			} else {
				addM(z.Slice(z.Int()).Min(3).Parse([]any{1}, &d, opts...))
			}
		case 6:
			var d struct{ A int }
			d.A = 5
			if validate {
				addM(z.Struct(z.Schema{"a": z.Int().GT(100)}).Validate(&d, opts...))
			} else {
				addM(z.Struct(z.Schema{"a": z.Int().GT(100)}).Parse(map[string]any{"a": 5}, &d, opts...))
			}
		case 7:
			var d *int
			if validate {
				addM(z.Ptr(z.Int()).NotNil().Validate(&d, opts...))
			} else {
				addM(z.Ptr(z.Int()).NotNil().Parse(nil, &d, opts...))
			}
		case 8:
			d := 5
			cf := z.CustomFunc(func(p *int, c z.Ctx) bool { return false })
			if validate {
				add(cf.Validate(&d, opts...))
			} else {
				add(cf.Parse(5, &d, opts...))
			}
		default:
			d := 5
			if validate {
				add(z.Preprocess(func(n *int, c z.Ctx) (int, error) { return *n, nil }, z.Int().GT(100)).Validate(&d, opts...))
			} else {
				add(z.Preprocess(func(n int, c z.Ctx) (int, error) { return n, nil }, z.Int().GT(100)).Parse(5, &d, opts...))
			}
		}
		conf.IssueFormatter = old
		v.Assert(len(msgs) == 1, "C11:expected-exactly-one-issue")
		v.Assert(len(msgs) == 1 && len(msgs[0]) >= 2 && msgs[0][:2] == "F:", "C11:message-precedence")
		v.Cover("precedence-case")
	case "i18n-names":
		// the language of an execution is looked up by its exact name: regional names are names
		old := conf.IssueFormatter
		i18n.SetLanguagesErrsMap(map[string]zconst.LangMap{"en": en.Map, "es-419": es.Map, "es_MX": es.Map, "e": es.Map}, "en")
		wantEn := strings.ReplaceAll(en.Map["string"]["min"], "{{min}}", "5")
		wantEs := strings.ReplaceAll(es.Map["string"]["min"], "{{min}}", "5")
		lang := []string{"es-419", "es_MX", "e", "es", "es-AR", "en-US", "en", "-", ""}[v.Choice("lang", 9)]
		var d string
		errs := z.String().Min(5).Parse("ab", &d, z.WithCtxValue("lang", lang))
		conf.IssueFormatter = old
		v.Assert(len(errs) == 1, "C11:expected-exactly-one-issue")
		want := wantEn
		if lang == "es-419" || lang == "es_MX" || lang == "e" {
			want = wantEs
		}
		v.Assert(errs[0].Message == want, "C11:language-selection")
		v.Cover("precedence-case")
	case "param-rendering":
		// messages of tests whose parameters are awkward to print (float32 bounds that are not exact
		// in binary, 1e21, 2^53+1, MinInt+1): the template of the language in force, no placeholder left
		type pc struct {
			run   func() z.ZogIssueList
			dtype zconst.ZogType
			code  string
			key   string
		}
		var f32 float32
		var f64 float64
		var n int
		cases := []pc{
			{func() z.ZogIssueList { f32 = 0; return z.Float32().GT(0.1).Parse(0.05, &f32) }, "number", "gt", "gt"},
			{func() z.ZogIssueList { f32 = 0; return z.Float32().LTE(2.7).Parse(99, &f32) }, "number", "lte", "lte"},
			{func() z.ZogIssueList { f32 = 1; return z.Float32().EQ(99.99).Validate(&f32) }, "number", "eq", "eq"},
			{func() z.ZogIssueList { return z.Float64().GT(0.1).Parse(0.05, &f64) }, "number", "gt", "gt"},
			{func() z.ZogIssueList { return z.Float64().LT(1e-7).Parse(5, &f64) }, "number", "lt", "lt"},
			{func() z.ZogIssueList { return z.Float64().GTE(1e21).Parse(5, &f64) }, "number", "gte", "gte"},
			{func() z.ZogIssueList { return z.Int().GT(1<<53+1).Parse(5, &n) }, "number", "gt", "gt"},
			{func() z.ZogIssueList { return z.Int().LT(-9223372036854775807).Parse(5, &n) }, "number", "lt", "lt"},
		}
		c := cases[v.Choice("case", len(cases))]
		lm := map[string]zconst.LangMap{"en": en.Map, "es": es.Map}
		lang := []string{"en", "es"}[v.Choice("lang", 2)]
		old := conf.IssueFormatter
		conf.IssueFormatter = conf.NewDefaultFormatter(lm[lang])
		errs := c.run()
		conf.IssueFormatter = old
		v.Assert(len(errs) == 1 && errs[0].Code == c.code, "C11:expected-exactly-one-issue")
		// the message is the language map's template around SOME rendering of the parameter (how a
		// number is printed is not part of the property), and different parameters give different messages
		tmpl := lm[lang][c.dtype][c.code]
		pre, post, _ := strings.Cut(tmpl, "{{"+c.key+"}}")
		msg := errs[0].Message
		v.Assert(len(msg) > len(pre)+len(post) && strings.HasPrefix(msg, pre) && strings.HasSuffix(msg, post) && !strings.Contains(msg, "{{"), "C11:unresolved-placeholder")
		_, hasParam := errs[0].Params[c.key]
		v.Assert(hasParam, "C11:issue-params")
		v.Cover("precedence-case")
	case "i18n-reinstall":
		// every installation of i18n stands alone: the language key option of an earlier
		// installation does not carry over to a later one
		old := conf.IssueFormatter
		langs := map[string]zconst.LangMap{"en": en.Map, "es": es.Map}
		wantEn := strings.ReplaceAll(en.Map["string"]["min"], "{{min}}", "5")
		wantEs := strings.ReplaceAll(es.Map["string"]["min"], "{{min}}", "5")
		var d string
		i18n.SetLanguagesErrsMap(langs, "en", i18n.WithLangKey("locale"))
		e1 := z.String().Min(5).Parse("ab", &d, z.WithCtxValue("locale", "es"))
		e2 := z.String().Min(5).Parse("ab", &d, z.WithCtxValue("lang", "es"))
		i18n.SetLanguagesErrsMap(langs, "en")
		e3 := z.String().Min(5).Parse("ab", &d, z.WithCtxValue("lang", "es"))
		e4 := z.String().Min(5).Parse("ab", &d, z.WithCtxValue("locale", "es"))
		conf.IssueFormatter = old
		v.Assert(len(e1) == 1 && len(e2) == 1 && len(e3) == 1 && len(e4) == 1, "C11:expected-exactly-one-issue")
		v.Assert(e1[0].Message == wantEs && e2[0].Message == wantEn, "C11:language-selection")
		v.Assert(e3[0].Message == wantEs && e4[0].Message == wantEn, "C11:language-selection")
		v.Cover("precedence-case")
	case "i18n":
		old := conf.IssueFormatter
		def := []string{"en", "es"}[v.Choice("default-lang", 2)]
		i18n.SetLanguagesErrsMap(map[string]zconst.LangMap{"en": en.Map, "es": es.Map}, def)
		lang := []any{nil, "es", "en", "fr"}[v.Choice("lang", 4)]
		var opts []z.ExecOption
		if lang != nil {
			opts = append(opts, z.WithCtxValue("lang", lang))
		}
		var d string
		errs := z.String().Min(5).Parse("ab", &d, opts...)
		// a second execution without a language must fall back to the default
		errs2 := z.String().Min(5).Parse("ab", &d)
		conf.IssueFormatter = old
		v.Assert(len(errs) == 1 && len(errs2) == 1, "C11:expected-exactly-one-issue")
		wantEn := strings.ReplaceAll(en.Map["string"]["min"], "{{min}}", "5")
		wantEs := strings.ReplaceAll(es.Map["string"]["min"], "{{min}}", "5")
		wantDef := wantEn
		if def == "es" {
			wantDef = wantEs
		}
		switch lang {
		case "es":
			v.Assert(errs[0].Message == wantEs, "C11:language-selection")
		case "en":
			v.Assert(errs[0].Message == wantEn, "C11:language-selection")
		default:
			v.Assert(errs[0].Message == wantDef, "C11:language-selection")
		}
		v.Assert(errs2[0].Message == wantDef, "C11:language-leaked-between-executions")
		v.Cover("precedence-case")
	}
}
