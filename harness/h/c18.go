package h

import (
	z "github.com/Oudwins/zog"
	v "github.com/Oudwins/zog/zzverif"
)

func init() { Registry["C18"] = C18_Run }

// C18 — numeric coercion never silently changes a number.
// One job per (source representation, destination schema). The source value is symbolic
// over its whole domain (64-bit BV / IEEE double incl. NaN, Inf, subnormals).

var c18Srcs = []string{"int", "int32", "int64", "float32", "float64", "decstr", "fltstr"}
var c18Dsts = []string{"Int", "Int32", "Int64", "Float32", "Float64"}

func C18_Jobs() []string {
	out := []string{"literal/huge-strings", "literal/decimal-forms", "literal/float32-widening"}
	for _, s := range c18Srcs {
		for _, d := range c18Dsts {
			if s == "fltstr" && d[0] == 'I' {
				continue // strconv.Atoi of an exponent/fraction rendering: not modelled (always a coerce issue or an exact small integer)
			}
			out = append(out, s+"->"+d)
		}
	}
	return out
}

func C18_Covers() []string { return []string{"success", "issue"} }

// numSpec is the exact mathematical value of the input: an integer I, or the float64 F.
type numSpec struct {
	isInt bool
	I     int64
	F     float64
}

func c18Source(src string) (any, numSpec) {
	switch src {
	case "int":
		n := v.Int("n")
		return n, numSpec{isInt: true, I: int64(n)}
	case "int32":
		n := v.Int32("n")
		return n, numSpec{isInt: true, I: int64(n)}
	case "int64":
		n := v.Int64("n")
		return n, numSpec{isInt: true, I: n}
	case "float32":
		f := v.Float32("f")
		return f, numSpec{F: float64(f)}
	case "float64":
		f := v.Float64("f")
		return f, numSpec{F: f}
	case "decstr":
		n := v.Int("n")
		return v.Itoa(n), numSpec{isInt: true, I: int64(n)}
	case "fltstr":
		f := v.Float64("f")
		return v.Ftoa(f), numSpec{F: f}
	}
	panic("bad source " + src)
}

func c18CheckIssue(errs z.ZogIssueList, untouched bool) {
	v.Cover("issue")
	v.Assert(len(errs) == 1, "C18:one-issue")
	v.Assert(errs[0].Code == "coerce", "C18:issue-is-coerce")
	v.Assert(untouched, "C18:dest-written-on-failure")
}

func C18_Run(job string) {
	if job == "literal/float32-widening" {
		// a float32 input reaches a Float64 destination as the same number (every float32 is a
		// float64): concrete witnesses whose shortest decimal form is another float64
		xs := []float32{0.1, 0.2, 0.3, 1.0 / 3, 16777216, 123456.79, 1e-45, 1.1754944e-38, 3.4028235e38, -0.7, 2.5, 0}
		x := xs[v.Choice("x", len(xs))]
		var d float64
		var dd struct{ F float64 }
		e1 := z.Float64().Parse(x, &d)
		e2 := z.Struct(z.Schema{"f": z.Float64()}).Parse(map[string]any{"f": x}, &dd)
		v.Cover("success")
		v.Assert(len(e1) == 0 && e2 == nil, "C18:representable-value-rejected")
		v.Assert(d == float64(x) && dd.F == float64(x), "C18:value-changed")
		return
	}
	if job == "literal/decimal-forms" {
		// an integer schema reads a string as a DECIMAL numeral (sign, digits, leading zeros
		// allowed) and reports everything else: no radix prefixes, no digit separators
		type lit struct {
			s    string
			ok   bool
			want int
		}
		lits := []lit{{"010", true, 10}, {"0123", true, 123}, {"-017", true, -17}, {"+5", true, 5}, {"08", true, 8}, {"00", true, 0}, {"0644", true, 644},
			{"10.0", false, 0}, {"1200.0", false, 0}, {"12.0", false, 0}, {"-20.", false, 0}, {"9007199254740993.0", false, 0}, {"12.5", false, 0}, {"0x10", false, 0}, {"0b11", false, 0}, {"0o17", false, 0}, {"1_000", false, 0}, {"0_7", false, 0}, {"1e3", false, 0}, {"12 ", false, 0}, {"٣", false, 0}}
		l := lits[v.Choice("lit", len(lits))]
		i, i64, i32 := 77, int64(77), int32(77)
		var e1, e2, e3 z.ZogIssueList
		var d struct{ Q int }
		dq := 0
		switch v.Choice("via", 2) {
		case 0:
			e1, e2, e3 = z.Int().Parse(l.s, &i), z.Int64().Parse(l.s, &i64), z.Int32().Parse(l.s, &i32)
		default:
			em := z.Struct(z.Schema{"q": z.Int()}).Parse(map[string]any{"q": l.s}, &d)
			e1, e2, e3 = em["q"], em["q"], em["q"]
			i, i64, i32 = d.Q, int64(d.Q), int32(d.Q)
			if !l.ok {
				i, i64, i32 = 77, 77, 77
			}
		}
		_ = dq
		if l.ok {
			v.Cover("success")
			v.Assert(len(e1) == 0 && len(e2) == 0 && len(e3) == 0, "C18:representable-value-rejected")
			v.Assert(i == l.want && i64 == int64(l.want) && i32 == int32(l.want), "C18:value-changed")
		} else {
			v.Cover("issue")
			v.Assert(len(e1) == 1 && len(e2) == 1 && len(e3) == 1 && e1[0].Code == "coerce", "C18:out-of-range-accepted")
			v.Assert(i == 77 && i64 == 77 && i32 == 77, "C18:value-changed")
		}
		return
	}
	if job == "literal/huge-strings" {
		// integer-syntax strings beyond the destination's range are reported, never saturated
		lits := []string{"9223372036854775808", "99999999999999999999", "-9223372036854775809", "18446744073709551616", "2147483648", "-2147483649", "1e19", "1e400"}
		s := lits[v.Choice("lit", len(lits))]
		var i int
		var i64 int64
		var i32 int32
		var f32 float32
		small := s == "2147483648" || s == "-2147483649"
		e1 := z.Int().Parse(s, &i)
		e2 := z.Int64().Parse(s, &i64)
		e3 := z.Int32().Parse(s, &i32)
		if small {
			v.Cover("success")
			v.Assert(len(e1) == 0 && len(e2) == 0 && v.Itoa(i) == s && i64 == int64(i), "C18:value-changed")
		} else {
			v.Assert(len(e1) == 1 && len(e2) == 1 && i == 0 && i64 == 0, "C18:out-of-range-accepted")
		}
		v.Cover("issue")
		v.Assert(len(e3) == 1 && e3[0].Code == "coerce" && i32 == 0, "C18:out-of-range-accepted")
		if s == "1e400" {
			e4 := z.Float32().Parse(s, &f32)
			var f64 float64
			e5 := z.Float64().Parse(s, &f64)
			v.Assert(len(e4) == 1 && len(e5) == 1, "C18:out-of-range-accepted")
		}
		return
	}
	var src, dst string
	for i := 0; i+1 < len(job); i++ {
		if job[i] == '-' && job[i+1] == '>' {
			src, dst = job[:i], job[i+2:]
		}
	}
	in, sp := c18Source(src)
	switch dst {
	case "Int":
		d := 77
		errs := z.Int().Parse(in, &d)
		if len(errs) != 0 {
			c18CheckIssue(errs, d == 77)
			return
		}
		v.Cover("success")
		if sp.isInt {
			v.Assert(int64(d) == sp.I, "C18:value-changed")
		} else {
			inr := v.And(sp.F >= -9223372036854775808.0, sp.F < 9223372036854775808.0)
			v.Assert(inr, "C18:out-of-range-accepted")
			v.Assert(d == int(sp.F), "C18:value-changed")
		}
	case "Int64":
		d := int64(77)
		errs := z.Int64().Parse(in, &d)
		if len(errs) != 0 {
			c18CheckIssue(errs, d == 77)
			return
		}
		v.Cover("success")
		if sp.isInt {
			v.Assert(d == sp.I, "C18:value-changed")
		} else {
			inr := v.And(sp.F >= -9223372036854775808.0, sp.F < 9223372036854775808.0)
			v.Assert(inr, "C18:out-of-range-accepted")
			v.Assert(d == int64(sp.F), "C18:value-changed")
		}
	case "Int32":
		d := int32(77)
		errs := z.Int32().Parse(in, &d)
		if len(errs) != 0 {
			c18CheckIssue(errs, d == 77)
			return
		}
		v.Cover("success")
		if sp.isInt {
			v.Assert(int64(d) == sp.I, "C18:value-changed")
		} else {
			inr := v.And(sp.F > -2147483649.0, sp.F < 2147483648.0)
			v.Assert(inr, "C18:out-of-range-accepted")
			v.Assert(d == int32(sp.F), "C18:value-changed")
		}
	case "Float64":
		d := 77.5
		errs := z.Float64().Parse(in, &d)
		if len(errs) != 0 {
			c18CheckIssue(errs, d == 77.5)
			return
		}
		v.Cover("success")
		if sp.isInt {
			// round-to-nearest of the integer is accepted
			v.Assert(d == float64(sp.I), "C18:value-changed")
		} else {
			v.Assert(v.SameBits(d, sp.F), "C18:value-changed")
		}
	case "Float32":
		d := float32(77.5)
		errs := z.Float32().Parse(in, &d)
		if len(errs) != 0 {
			c18CheckIssue(errs, d == 77.5)
			return
		}
		v.Cover("success")
		var want float32
		if sp.isInt {
			want = float32(float64(sp.I))
		} else {
			want = float32(sp.F)
			// a finite float64 must not become +-Inf
			v.Assert(v.Or(v.IsInf(sp.F), v.Not(v.IsInf(float64(want)))), "C18:out-of-range-accepted")
		}
		v.Assert(v.SameBits(float64(d), float64(want)), "C18:value-changed")
	}
}
