// Package h holds the verification harnesses. Each property Cxx has
//
//	Cxx_Jobs() []string   the cells (jobs) of the property for the current tier
//	Cxx_Run(job string)   one harness run: nondeterministic inputs from zzverif, the real zog
//	                      API in the middle, the property as assertions
//	Cxx_Covers() []string situations that must be reached (vacuity guard)
//
// The gosym engine executes Cxx_Run symbolically from /repo's SSA; `go test -overlay`
// executes the same function natively to replay solver models.
package h

// Registry is used by the native replay test.
var Registry = map[string]func(job string){}
