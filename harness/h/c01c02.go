package h

import (
	v "github.com/Oudwins/zog/zzverif"
)

func init() {
	Registry["C01"] = C01_Run
	Registry["C02"] = C02_Run
}

// C01 — success means valid. C02 — the issues are exactly the violations.
// Both walk the shared shape family; C02 compares the complete result with the reference
// semantics, C01 re-evaluates the declared constraints on the destination whenever zog
// reported nothing (an oracle that does not depend on the reference's issue computation).

func C01_Jobs() []string   { return shapeJobs() }
func C02_Jobs() []string   { return shapeJobs() }
func C01_Covers() []string { return []string{"no-issues", "issues"} }
func C02_Covers() []string { return []string{"no-issues", "issues"} }

func C01_Run(job string) {
	sh := buildShape(job)
	o := runReal(sh)
	if !o.empty() {
		v.Cover("issues")
		return
	}
	v.Cover("no-issues")
	v.Assert(sh.root().Holds(sh.mode, sh.destPtr(o)), "C01:constraint-not-enforced")
	if sh.top != nil && sh.top.TCode != "" {
		v.Assert(o.dest.I != sh.top.TX, "C01:struct-test-not-enforced")
	}
}

func C02_Run(job string) {
	sh := buildShape(job)
	o := runReal(sh)
	want := sh.want(o)
	if o.empty() {
		v.Cover("no-issues")
	} else {
		v.Cover("issues")
	}
	v.Assert(o.empty() == (len(want) == 0), "C02:nil-iff-no-violation")
	v.Assert(sameIssues(o, want), "C02:issues-differ-from-violations")
}
