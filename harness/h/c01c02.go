package h

import (
	z "github.com/Oudwins/zog"
	v "github.com/Oudwins/zog/zzverif"
)

func init() {
	Registry["C01"] = C01_Run
	Registry["C02"] = C02_Run
}

// C01 — success means valid. C02 — the issues are exactly the violations.
// Both walk the shared shape family; C02 compares the complete result with the reference
// semantics, C01 re-evaluates the declared constraints on the destination whenever zog
// reported nothing (an oracle that does not depend on the reference's issue computation).

func C01_Jobs() []string {
	return append(shapeJobs(), "hist/two-dest-types/parse", "hist/two-dest-types/validate", "hist/catch-then-ptr", "hist/shared-leaf")
}
func C02_Jobs() []string {
	out := shapeJobs()
	// the same exact comparison after an earlier execution that panicked in a user callback
	// below the top level and was recovered (paths must still be rooted at this call's root)
	for _, j := range []string{"parse/T2/int/d1", "parse/T2/slice/d0", "validate/T2/struct/d1", "parse/T4/nested/d1", "parse/T3/int/d1", "parse/T1/int/d1"} {
		out = append(out, "afterpanic/"+j)
	}
	return out
}
func C01_Covers() []string { return []string{"no-issues", "issues"} }
func C02_Covers() []string { return []string{"no-issues", "issues"} }

type c01A struct {
	Name string
	Nick string
	Age  int
}
type c01B struct { // same fields as c01A in another order
	Age  int
	Nick string
	Name string
}

// constraints must not be skipped because of an earlier call
func c01History(kind, mode string) {
	switch kind {
	case "two-dest-types":
		// one schema value used with two destination types
		m, g := v.Int("min"), v.Int("gt")
		name, nick, age := visible("name", 2), visible("nick", 2), v.Int("age")
		schema := z.Struct(z.Schema{"name": z.String().Min(m).Required(), "nick": z.String(), "age": z.Int().GT(g)})
		in := map[string]any{"name": name, "nick": nick, "age": age}
		var a c01A
		var b c01B
		var e1, e2 z.ZogIssueMap
		if mode == "parse" {
			e1 = schema.Parse(in, &a)
			e2 = schema.Parse(in, &b)
		} else {
			a = c01A{name, nick, age}
			b = c01B{age, nick, name}
			e1 = schema.Validate(&a)
			e2 = schema.Validate(&b)
		}
		_ = e1
		if e2 != nil {
			v.Cover("issues")
			return
		}
		v.Cover("no-issues")
		v.Assert(len(b.Name) > 0 && len(b.Name) >= m, "C01:constraint-not-enforced")
		v.Assert(b.Age == 0 || b.Age > g, "C01:constraint-not-enforced")
		v.Assert(b.Name == name && b.Nick == nick && (b.Age == age || mode == "validate"), "C01:value-placed-in-the-wrong-field")
	case "catch-then-ptr":
		// an earlier call with a catching schema (the catch need not fire), then nodes behind pointers
		x := v.Int("x")
		d := 5
		z.Int().Catch(3).Parse(x, &d)
		z.Int().Catch(3).Validate(&d)
		var np *int
		sl := []int{x}
		psl := &sl
		k := v.Int("k")
		e1 := z.Ptr(z.Int()).NotNil().Validate(&np)
		e2 := z.Ptr(z.Slice(z.Int())).Validate(&psl)
		e3 := z.Ptr(z.Slice(z.Int()).Min(k)).Validate(&psl)
		v.Assert(e1 != nil, "C01:constraint-not-enforced")
		v.Assert(e2 == nil, "C01:unexpected-issue")
		if e3 == nil {
			v.Cover("no-issues")
			v.Assert(1 >= k, "C01:constraint-not-enforced")
		} else {
			v.Cover("issues")
		}
	case "shared-leaf":
		// the same leaf schema object reused by two calls with different outcomes
		g := v.Int("g")
		leaf := z.Int().GT(g).Catch(7)
		x, y := v.Int("x"), v.Int("y")
		var d struct {
			A int
			L []int
		}
		errs := z.Struct(z.Schema{"a": leaf, "l": z.Slice(z.Int().GT(g)).Required()}).Parse(map[string]any{"a": x, "l": []any{y}}, &d)
		if errs == nil {
			v.Cover("no-issues")
			v.Assert(len(d.L) == 1 && d.L[0] > g, "C01:constraint-not-enforced")
			v.Assert(d.A > g || d.A == 7, "C01:constraint-not-enforced")
		} else {
			v.Cover("issues")
		}
	}
}

func C01_Run(job string) {
	if h, kind, mode, _ := split3(job); h == "hist" {
		c01History(kind, mode)
		return
	}
	sh := buildShape(job)
	o := runReal(sh)
	if !o.empty() {
		v.Cover("issues")
		return
	}
	v.Cover("no-issues")
	v.Assert(sh.root().Holds(sh.mode, sh.destPtr(o)), "C01:constraint-not-enforced")
	if sh.top != nil && sh.top.TCode != "" {
		v.Assert(o.dest.I != sh.top.TX, "C01:struct-test-not-enforced")
	}
}

func C02_Run(job string) {
	if len(job) > 11 && job[:11] == "afterpanic/" {
		c07Prior("panicking")
		job = job[11:]
	}
	sh := buildShape(job)
	o := runReal(sh)
	want := sh.want(o)
	if o.empty() {
		v.Cover("no-issues")
	} else {
		v.Cover("issues")
	}
	v.Assert(o.empty() == (len(want) == 0), "C02:nil-iff-no-violation")
	v.Assert(sameIssues(o, want), "C02:issues-differ-from-violations")
}
