package h

import (
	"errors"
	"strings"
	"time"

	z "github.com/Oudwins/zog"
	"github.com/Oudwins/zog/parsers/zjson"
	v "github.com/Oudwins/zog/zzverif"
)

func init() {
	Registry["C01"] = C01_Run
	Registry["C02"] = C02_Run
}

// C01 — success means valid. C02 — the issues are exactly the violations.
// Both walk the shared shape family; C02 compares the complete result with the reference
// semantics, C01 re-evaluates the declared constraints on the destination whenever zog
// reported nothing (an oracle that does not depend on the reference's issue computation).

func C01_Jobs() []string { return append(c01_jobs0(), "json-records") }
func c01_jobs0() []string {
	return append(shapeJobs(), "hist/two-dest-types/parse", "hist/two-dest-types/validate", "hist/catch-then-ptr", "hist/shared-leaf",
		"hist/preprocess", "hist/str-not", "hist/blank-required", "hist/merge-tests", "hist/dash-tags")
}
func C02_Jobs() []string { return append(c02_jobs0(), "json-records") }
func c02_jobs0() []string {
	out := shapeJobs()
	// the same exact comparison after an earlier execution that panicked in a user callback
	// below the top level and was recovered (paths must still be rooted at this call's root)
	for _, j := range []string{"parse/T2/int/d1", "parse/T2/slice/d0", "validate/T2/struct/d1", "parse/T4/nested/d1", "parse/T3/int/d1", "parse/T1/int/d1"} {
		out = append(out, "afterpanic/"+j)
	}
	out = append(out, "extra/preprocess-slice", "extra/preprocess-struct/parse", "extra/preprocess-struct/validate", "extra/own-coercer", "extra/multi-issue-test/parse", "extra/multi-issue-test/validate",
		"extra/blank-strings", "extra/decode-failure", "extra/own-tests-all-reported/parse", "extra/own-tests-all-reported/validate", "extra/time-eq-zones", "extra/long-slice-keys/parse", "extra/long-slice-keys/validate")
	return out
}
func C01_Covers() []string { return []string{"no-issues", "issues"} }
func C02_Covers() []string { return []string{"no-issues", "issues"} }

type c01A struct {
	Name string
	Nick string
	Age  int
}
type c01B struct { // same fields as c01A in another order
	Age  int
	Nick string
	Name string
}

// constraints must not be skipped because of an earlier call
func c01History(kind, mode string) {
	switch kind {
	case "two-dest-types":
		// one schema value used with two destination types
		m, g := v.Int("min"), v.Int("gt")
		name, nick, age := visible("name", 2), visible("nick", 2), v.Int("age")
		schema := z.Struct(z.Schema{"name": z.String().Min(m).Required(), "nick": z.String(), "age": z.Int().GT(g)})
		in := map[string]any{"name": name, "nick": nick, "age": age}
		var a c01A
		var b c01B
		var e1, e2 z.ZogIssueMap
		if mode == "parse" {
			e1 = schema.Parse(in, &a)
			e2 = schema.Parse(in, &b)
		} else {
			a = c01A{name, nick, age}
			b = c01B{age, nick, name}
			e1 = schema.Validate(&a)
			e2 = schema.Validate(&b)
		}
		_ = e1
		if e2 != nil {
			v.Cover("issues")
			return
		}
		v.Cover("no-issues")
		v.Assert(len(b.Name) > 0 && len(b.Name) >= m, "C01:constraint-not-enforced")
		v.Assert(b.Age == 0 || b.Age > g, "C01:constraint-not-enforced")
		v.Assert(b.Name == name && b.Nick == nick && (b.Age == age || mode == "validate"), "C01:value-placed-in-the-wrong-field")
	case "catch-then-ptr":
		// an earlier call with a catching schema (the catch need not fire), then nodes behind pointers
		x := v.Int("x")
		d := 5
		z.Int().Catch(3).Parse(x, &d)
		z.Int().Catch(3).Validate(&d)
		var np *int
		sl := []int{x}
		psl := &sl
		k := v.Int("k")
		e1 := z.Ptr(z.Int()).NotNil().Validate(&np)
		e2 := z.Ptr(z.Slice(z.Int())).Validate(&psl)
		e3 := z.Ptr(z.Slice(z.Int()).Min(k)).Validate(&psl)
		v.Assert(e1 != nil, "C01:constraint-not-enforced")
		v.Assert(e2 == nil, "C01:unexpected-issue")
		if e3 == nil {
			v.Cover("no-issues")
			v.Assert(1 >= k, "C01:constraint-not-enforced")
		} else {
			v.Cover("issues")
		}
	case "preprocess":
		// constraints of a node wrapped in Preprocess are enforced on the function's output, whatever
		// that output is (zero values included), at top level, as a struct field and as a slice element
		g, k := v.Int("g"), v.Int("k")
		x := v.Int("x")
		v.Assume(x > -1000000 && x < 1000000 && k > -1000000 && k < 1000000)
		mk := func() z.ZogSchema {
			return z.Preprocess(func(n int, c z.Ctx) (int, error) { return n - k, nil }, z.Int().GT(g))
		}
		flag := z.Preprocess(func(n int, c z.Ctx) (bool, error) { return n > k, nil }, z.Bool().True())
		var d struct {
			A int
			L []int
			B bool
		}
		var errs z.ZogIssueMap
		switch v.Choice("place", 3) {
		case 0:
			l := z.Preprocess(func(n int, c z.Ctx) (int, error) { return n - k, nil }, z.Int().GT(g)).Parse(x, &d.A)
			if len(l) == 0 {
				v.Cover("no-issues")
				v.Assert(d.A == x-k && d.A > g, "C01:constraint-not-enforced")
			} else {
				v.Cover("issues")
			}
			return
		case 1:
			errs = z.Struct(z.Schema{"a": mk(), "b": flag}).Parse(map[string]any{"a": x, "b": x}, &d)
			if errs == nil {
				v.Assert(d.A == x-k && d.A > g && d.B && x > k, "C01:constraint-not-enforced")
			}
		default:
			errs = z.Struct(z.Schema{"l": z.Slice(mk())}).Parse(map[string]any{"l": []any{x, k}}, &d)
			if errs == nil {
				v.Assert(len(d.L) == 2 && d.L[0] == x-k && d.L[0] > g && d.L[1] == 0 && 0 > g, "C01:constraint-not-enforced")
			}
		}
		if errs == nil {
			v.Cover("no-issues")
		} else {
			v.Cover("issues")
		}
	case "blank-required":
		// Required / NotNil nodes had a present value: a string of Unicode white space is not one
		// (ALL byte strings of <=2 bytes, 3 in thorough; struct field, slice item, behind a pointer)
		s := v.String("s", wsMax())
		n := 0
		for n < len(s) {
			n++
		}
		blank := refBlank(s, n)
		var d struct {
			A string
			P *string
			L []string
		}
		errs := z.Struct(z.Schema{"a": z.String().Required(), "p": z.Ptr(z.String()).NotNil(), "l": z.Slice(z.String().Required())}).
			Parse(map[string]any{"a": s, "p": s, "l": []any{"x", s}}, &d)
		if errs == nil {
			v.Cover("no-issues")
			v.Assert(!blank, "C01:constraint-not-enforced")
		} else {
			v.Cover("issues")
		}
	case "dash-tags":
		// a destination field whose source tag is "-" is still a node of the schema: its constraints
		// are enforced on the value the call leaves there (map input and a JSON document)
		g, x := v.Int("g"), v.Int("x")
		var d struct {
			A int `zog:"-"`
			B int `json:"-"`
			N struct {
				C int `json:"-"`
			}
		}
		s := z.Struct(z.Schema{"a": z.Int().Required().GT(g), "b": z.Int().Required().GT(g), "n": z.Struct(z.Schema{"c": z.Int().Required().GT(g)})})
		var errs z.ZogIssueMap
		if v.Choice("src", 2) == 0 {
			errs = s.Parse(map[string]any{"-": x, "b": x, "n": map[string]any{"c": x}}, &d)
		} else {
			x = 5
			errs = s.Parse(zjson.Decode(strings.NewReader(`{"-":5,"n":{"-":5}}`)), &d)
		}
		if errs == nil {
			v.Cover("no-issues")
			v.Assert(d.A == x && d.B == x && d.N.C == x && x > g, "C01:constraint-not-enforced")
		} else {
			v.Cover("issues")
		}
	case "merge-tests":
		// struct-level tests of every operand of a Merge are constraints of the merged schema
		x, y := v.Int("x"), v.Int("y")
		tst := func(code string, bad int) z.Test {
			return z.TestFunc(code, func(p any, c z.Ctx) bool { return p.(*struct{ A, B, C, D int }).A != bad })
		}
		b1, b2, b3, b4 := v.Int("b1"), v.Int("b2"), v.Int("b3"), v.Int("b4")
		s1 := z.Struct(z.Schema{"a": z.Int()}).Test(tst("t1", b1))
		s2 := z.Struct(z.Schema{"b": z.Int()}).Test(tst("t2", b2))
		s3 := z.Struct(z.Schema{"c": z.Int()}).Test(tst("t3", b3))
		s4 := z.Struct(z.Schema{"d": z.Int()}).Test(tst("t4", b4))
		m := s1.Merge(s2, s3, s4)
		var d struct{ A, B, C, D int }
		var errs z.ZogIssueMap
		if mode == "validate" || v.Choice("validate", 2) == 1 {
			d.A, d.B = x, y
			errs = m.Validate(&d)
		} else {
			errs = m.Parse(map[string]any{"a": x, "b": y}, &d)
		}
		if errs == nil {
			v.Cover("no-issues")
			v.Assert(d.A == x && x != b1 && x != b2 && x != b3 && x != b4, "C01:struct-test-not-enforced")
		} else {
			v.Cover("issues")
		}
	case "str-not":
		// negated string constraints are constraints: Not().OneOf / Not().Contains / Not().HasPrefix / Not().Len
		s := visible("s", 2) // printable, not blank (blank strings are absent values: C04)
		a, b := visible("a", 1), visible("b", 2)
		n := v.Int("n")
		v.Assume(len(s) > 0 && len(a) > 0)
		var d string
		var errs z.ZogIssueList
		var ok bool
		switch v.Choice("test", 4) {
		case 0:
			errs = z.String().Not().OneOf([]string{a, b}).Parse(s, &d)
			ok = s != a && s != b
		case 1:
			errs = z.String().Not().Contains(a).Parse(s, &d)
			ok = !(s == a || (len(s) == 2 && (s[:1] == a || s[1:] == a)))
		case 2:
			errs = z.String().Not().HasPrefix(a).Parse(s, &d)
			ok = s[:1] != a
		default:
			errs = z.String().Not().Len(n).Min(1).Parse(s, &d)
			ok = len(s) != n
		}
		if len(errs) == 0 {
			v.Cover("no-issues")
			v.Assert(ok && d == s, "C01:constraint-not-enforced")
		} else {
			v.Cover("issues")
		}
	case "shared-leaf":
		// the same leaf schema object reused by two calls with different outcomes
		g := v.Int("g")
		leaf := z.Int().GT(g).Catch(7)
		x, y := v.Int("x"), v.Int("y")
		var d struct {
			A int
			L []int
		}
		errs := z.Struct(z.Schema{"a": leaf, "l": z.Slice(z.Int().GT(g)).Required()}).Parse(map[string]any{"a": x, "l": []any{y}}, &d)
		if errs == nil {
			v.Cover("no-issues")
			v.Assert(len(d.L) == 1 && d.L[0] > g, "C01:constraint-not-enforced")
			v.Assert(d.A > g || d.A == 7, "C01:constraint-not-enforced")
		} else {
			v.Cover("issues")
		}
	}
}

func C01_Run(job string) {
	if job == "json-records" {
		jrCheck("C01")
		return
	}
	if h, kind, mode, _ := split3(job); h == "hist" {
		c01History(kind, mode)
		return
	}
	sh := buildShape(job)
	o := runReal(sh)
	if !o.empty() {
		v.Cover("issues")
		return
	}
	v.Cover("no-issues")
	v.Assert(sh.root().Holds(sh.mode, sh.destPtr(o)), "C01:constraint-not-enforced")
	if sh.top != nil && sh.top.TCode != "" {
		v.Assert(o.dest.I != sh.top.TX, "C01:struct-test-not-enforced")
	}
	if sh.top != nil {
		for _, kid := range sh.top.Kids {
			if in, ok := kid.(*StructNode); ok && in.TCode != "" && !(sh.mode == Parse && in.Class == cBad) {
				v.Assert(o.dest.N.X != in.TX, "C01:struct-test-not-enforced")
			}
		}
	}
}

// node kinds outside the shape family, with hand-written expectations
func c02Extra(kind, mode string) {
	g := v.Int("g")
	x, y := v.Int("x"), v.Int("y")
	bad := func(n int) int { return v.B2I(!(n > g)) }
	switch kind {
	case "preprocess-slice":
		// every element is checked, whatever happened at earlier elements
		el := z.Preprocess(func(n int, c z.Ctx) (int, error) { return n, nil }, z.Int().GT(g).Required())
		var d []int
		errs := z.Slice(el).Parse([]any{x, y, "zz"}, &d)
		want := bad(x) + bad(y) + 1
		n := 0
		for k, l := range errs {
			if k != "$first" {
				n += len(l)
			}
		}
		v.Assert(n == want, "C02:issues-differ-from-violations")
		v.Assert(len(errs["[0]"]) == bad(x) && len(errs["[1]"]) == bad(y) && len(errs["[2]"]) == 1 && errs["[2]"][0].Code == "coerce", "C02:issues-differ-from-violations")
		v.Assert((errs == nil) == (want == 0), "C02:nil-iff-no-violation")
	case "preprocess-struct":
		var d struct{ A, P int }
		var errs z.ZogIssueMap
		if mode == "validate" {
			// in Validate mode the Preprocess function receives the pointer to the value
			s := z.Struct(z.Schema{"a": z.Int().GT(g), "p": z.Preprocess(func(n *int, c z.Ctx) (int, error) { return *n, nil }, z.Int().GT(g))})
			v.Assume(v.And(x != 0, y != 0))
			d.A, d.P = x, y
			errs = s.Validate(&d)
		} else {
			s := z.Struct(z.Schema{"a": z.Int().GT(g), "p": z.Preprocess(func(n int, c z.Ctx) (int, error) { return n, nil }, z.Int().GT(g))})
			errs = s.Parse(map[string]any{"a": x, "p": y}, &d)
		}
		v.Assert(len(errs["a"]) == bad(x) && len(errs["p"]) == bad(y), "C02:issues-differ-from-violations")
		v.Assert((errs == nil) == (bad(x)+bad(y) == 0), "C02:nil-iff-no-violation")
	case "blank-strings":
		// a string made of Unicode white space only is an absent value, any other string a present
		// one: ALL byte strings of <=2 bytes (3 in thorough) at three kinds of node at once; the
		// issue map is exactly the absent-value issues
		s := v.String("s", wsMax())
		n := 0
		for n < len(s) {
			n++
		}
		blank := refBlank(s, n)
		var d struct {
			A string
			P *string
			L []string
		}
		errs := z.Struct(z.Schema{"a": z.String().Required(), "p": z.Ptr(z.String()).NotNil(), "l": z.Slice(z.String()).Required()}).
			Parse(map[string]any{"a": s, "p": s, "l": s}, &d)
		if blank {
			v.Assert(len(errs) == 4 && len(errs["a"]) == 1 && len(errs["p"]) == 1 && len(errs["l"]) == 1 && errs["a"][0].Code == "required" &&
				errs["p"][0].Code == "not_nil" && errs["l"][0].Code == "required", "C02:issues-differ-from-violations")
		} else {
			v.Assert(errs == nil, "C02:nil-iff-no-violation")
			v.Assert(d.A == s && d.P != nil && *d.P == s && len(d.L) == 1 && d.L[0] == s, "C02:issues-differ-from-violations")
		}
	case "own-tests-all-reported":
		// every failing test a struct or a slice declares on ITSELF is reported, not only the first
		type T struct {
			A int
			L []int
		}
		f1, f2 := v.Bool("f1"), v.Bool("f2")
		st := z.Struct(z.Schema{"a": z.Int(), "l": z.Slice(z.Int()).Min(3).Max(0).Contains(99)}).
			TestFunc(func(p any, c z.Ctx) bool { return !f1 }, z.IssueCode("first")).
			TestFunc(func(p any, c z.Ctx) bool { return !f2 }, z.IssueCode("second")).
			TestFunc(func(p any, c z.Ctx) bool { return !f1 }, z.IssueCode("third"))
		var d T
		var errs z.ZogIssueMap
		if mode == "validate" {
			d = T{A: 1, L: []int{1}}
			errs = st.Validate(&d)
		} else {
			errs = st.Parse(map[string]any{"a": 1, "l": []any{1}}, &d)
		}
		v.Assert(len(errs["$root"]) == 2*v.B2I(f1)+v.B2I(f2), "C02:issues-differ-from-violations")
		v.Assert(len(errs["l"]) == 3 && errs["l"][0].Code == "min" && errs["l"][1].Code == "max" && errs["l"][2].Code == "contained", "C02:issues-differ-from-violations")
		var top []int
		var le z.ZogIssueMap
		if mode == "validate" {
			top = []int{1}
			le = z.Slice(z.Int()).Min(3).Max(0).Validate(&top)
		} else {
			le = z.Slice(z.Int()).Min(3).Max(0).Parse([]any{1}, &top)
		}
		v.Assert(len(le["$root"]) == 2, "C02:issues-differ-from-violations")
	case "long-slice-keys":
		// a violation at item i is reported at [i], for every i of a list longer than 100 items
		n := []int{12, 17, 102}[v.Choice("len", 3)]
		badAt := []int{9, 10, 11, 15, 16, 99, 100, 101}[v.Choice("bad", 8)]
		if badAt >= n {
			badAt = n - 1
		}
		in := make([]any, n)
		vals := make([]int, n)
		for i := range in {
			in[i], vals[i] = 500, 500
		}
		in[badAt], vals[badAt] = 5, 5
		key := "[" + v.Itoa(badAt) + "]"
		var top []int
		var errs z.ZogIssueMap
		var d struct{ L []int }
		var es z.ZogIssueMap
		if mode == "validate" {
			top = vals
			errs = z.Slice(z.Int().GT(100)).Validate(&top)
			d.L = vals
			es = z.Struct(z.Schema{"l": z.Slice(z.Int().GT(100))}).Validate(&d)
		} else {
			errs = z.Slice(z.Int().GT(100)).Parse(in, &top)
			es = z.Struct(z.Schema{"l": z.Slice(z.Int().GT(100))}).Parse(map[string]any{"l": in}, &d)
		}
		v.Assert(len(errs) == 2 && len(errs[key]) == 1 && errs[key][0].Path == key, "C02:issues-differ-from-violations")
		v.Assert(len(es) == 2 && len(es["l"+key]) == 1 && es["l"+key][0].Path == "l"+key, "C02:issues-differ-from-violations")
	case "time-eq-zones":
		// a value that satisfies its node yields no issue: the same instant in another location
		sec := v.Int64("sec")
		v.Assume(sec > -(1<<40) && sec < 1<<40)
		ref := time.Unix(sec, 0).UTC()
		other := ref.In(time.FixedZone("X", 3600+1800))
		var d time.Time
		e1 := z.Time().EQ(ref).Parse(other, &d)
		v.Assert(len(e1) == 0, "C02:nil-iff-no-violation")
		d = other
		e2 := z.Time().EQ(ref).Validate(&d)
		v.Assert(len(e2) == 0, "C02:nil-iff-no-violation")
		var ds struct{ At time.Time }
		e3 := z.Struct(z.Schema{"at": z.Time().EQ(other)}).Parse(map[string]any{"at": sec}, &ds)
		v.Assert(e3 == nil, "C02:nil-iff-no-violation")
	case "decode-failure":
		// an undecodable document is exactly one issue at the root, whatever the root node declares
		doc := []string{`{`, `[1]`, `"s"`, `null`, ``, ` `, `{"a":}`}[v.Choice("doc", 7)]
		type T struct{ A int }
		var d T
		var pd *T
		var errs z.ZogIssueMap
		switch v.Choice("root", 3) {
		case 0:
			errs = z.Struct(z.Schema{"a": z.Int().Required()}).Parse(zjson.Decode(strings.NewReader(doc)), &d)
		case 1:
			errs = z.Ptr(z.Struct(z.Schema{"a": z.Int().Required()})).NotNil().Parse(zjson.Decode(strings.NewReader(doc)), &pd)
		default:
			errs = z.Ptr(z.Struct(z.Schema{"a": z.Int().Required()})).Parse(zjson.Decode(strings.NewReader(doc)), &pd)
		}
		v.Assert(len(errs) == 2 && len(errs["$root"]) == 1 && errs["$root"][0].Code == "invalid_json" && len(errs["$first"]) == 1, "C02:issues-differ-from-violations")
		v.Assert(pd == nil && d.A == 0, "C02:issues-differ-from-violations")
	case "own-coercer":
		// a schema's own coercer decides coercion for every input, also one that already has the
		// destination's type
		co := func(in any) (any, error) {
			if n, ok := in.(int); ok && n >= 0 {
				return n, nil
			}
			return nil, errBadInput
		}
		var d int
		errs := z.Int(z.WithCoercer(co)).GT(g).Parse(x, &d)
		switch {
		case x < 0:
			v.Assert(len(errs) == 1 && errs[0].Code == "coerce", "C02:issues-differ-from-violations")
		case !(x > g):
			v.Assert(len(errs) == 1 && errs[0].Code == "gt", "C02:issues-differ-from-violations")
		default:
			v.Assert(len(errs) == 0, "C02:nil-iff-no-violation")
		}
	case "multi-issue-test":
		// one test function may report several issues: all of them are reported (and all of them
		// are swallowed on a catching node)
		two := z.Test{Func: func(val any, c z.Ctx) {
			c.AddIssue(c.Issue().SetCode("first"))
			c.AddIssue(c.Issue().SetCode("second"))
		}}
		catching := v.Choice("catching", 2) == 1
		s := z.Int().Test(two)
		if catching {
			s = s.Catch(7)
		}
		var d struct{ A, B int }
		d.A, d.B = 1, 1
		st := z.Struct(z.Schema{"a": s, "b": z.Int().GT(g)})
		var errs z.ZogIssueMap
		if mode == "validate" {
			v.Assume(y != 0)
			d.B = y
			errs = st.Validate(&d)
		} else {
			errs = st.Parse(map[string]any{"a": 1, "b": y}, &d)
		}
		if catching {
			v.Assert(len(errs["a"]) == 0 && d.A == 7, "C02:issues-differ-from-violations")
		} else {
			v.Assert(len(errs["a"]) == 2 && errs["a"][0].Code == "first" && errs["a"][1].Code == "second", "C02:issues-differ-from-violations")
		}
		v.Assert(len(errs["b"]) == bad(y), "C02:issues-differ-from-violations")
	}
	v.Cover("issues")
	v.Cover("no-issues")
}

var errBadInput = errors.New("bad input")

func C02_Run(job string) {
	if job == "json-records" {
		jrCheck("C02")
		return
	}
	if a, kind, mode, _ := split3(job); a == "extra" {
		c02Extra(kind, mode)
		return
	}
	if len(job) > 11 && job[:11] == "afterpanic/" {
		c07Prior("panicking")
		job = job[11:]
	}
	sh := buildShape(job)
	o := runReal(sh)
	want := sh.want(o)
	if o.empty() {
		v.Cover("no-issues")
	} else {
		v.Cover("issues")
	}
	v.Assert(o.empty() == (len(want) == 0), "C02:nil-iff-no-violation")
	v.Assert(sameIssues(o, want), "C02:issues-differ-from-violations")
}
