package h

import (
	"os"
	"strings"

	z "github.com/Oudwins/zog"
	"github.com/Oudwins/zog/zenv"
	"github.com/Oudwins/zog/zhttp"
	v "github.com/Oudwins/zog/zzverif"
)

// C14, symbolic part: the VALUES of a flat record are symbolic strings; the form, query and env
// views must agree with the plain-map view of the same strings (env: after trimming).
// strconv.Atoi on symbolic bytes is an uninterpreted function of the string, so both views get
// the same (unknown) verdict for the same string.

type c14Flat struct {
	Name string `form:"full_name" query:"full_name" env:"FULL_NAME"`
	Age  int    `form:"age" query:"age" env:"AGE"`
	Ok   bool   `form:"ok" query:"ok" env:"OK"`
}

func c14FlatSchema() *z.StructSchema {
	return z.Struct(z.Schema{"name": z.String().Min(2).Required(), "age": z.Int().GT(17).Required(), "ok": z.Bool()})
}

func c14SymJobs() []string { return []string{"sym/form", "sym/query", "sym/env"} }

func c14Sym(front string) {
	v.MapOrderChoice(false)
	var name, age string
	if front == "env" {
		// ASCII bytes incl. blanks: trimming is part of the env contract (Unicode blanks are C04's)
		name, age = v.String("name", 2), v.String("age", 2)
		asc := 1
		for i := 0; i < len(name); i++ {
			asc &= v.B2I(name[i] < 0x80) & v.B2I(name[i] != 0) // an environment value cannot hold NUL
		}
		for i := 0; i < len(age); i++ {
			asc &= v.B2I(age[i] < 0x80) & v.B2I(age[i] != 0)
		}
		v.Assume(asc == 1)
	} else {
		name, age = v.String("name", 3), v.String("age", 2) // assumed alphanumeric by the query parser model
	}
	okWord := []string{"", "on", "true", "zz"}[v.Choice("ok", 4)]
	var d c14Flat
	var errs z.ZogIssueMap
	viewName, viewAge := name, age
	switch front {
	case "form":
		errs = c14FlatSchema().Parse(zhttp.Request(c11Request("POST", "application/x-www-form-urlencoded", "full_name="+name+"&age="+age+"&ok="+okWord, "")), &d)
	case "query":
		errs = c14FlatSchema().Parse(zhttp.Request(c11Request("GET", "", "", "full_name="+name+"&age="+age+"&ok="+okWord)), &d)
	case "env":
		os.Setenv("FULL_NAME", name)
		os.Setenv("AGE", age)
		os.Setenv("OK", okWord)
		errs = c14FlatSchema().Parse(zenv.NewDataProvider(), &d)
		os.Unsetenv("FULL_NAME")
		os.Unsetenv("AGE")
		os.Unsetenv("OK")
		viewName, viewAge = strings.TrimSpace(name), strings.TrimSpace(age)
	}
	// the map view of the same record (string leaves)
	ref := map[string]any{"name": viewName, "age": viewAge, "ok": okWord}
	var dRef c14Flat
	eRef := c14FlatSchema().Parse(ref, &dRef)
	rename := func(k string) string {
		switch k {
		case "full_name", "FULL_NAME":
			return "name"
		case "AGE":
			return "age"
		case "OK":
			return "ok"
		}
		return k
	}
	if eRef == nil {
		v.Cover("clean-record")
	} else {
		v.Cover("failing-record")
	}
	same := len(errs) == len(eRef)
	for k, l := range errs {
		if k == "$first" {
			continue
		}
		same = v.And(same, codesOf(l) == renamePaths(codesOf(eRef[rename(k)]), rename(k), k))
	}
	v.Assert(same, "C14:front-end-view-differs-from-the-map-view")
	v.Assert(v.And(d.Name == dRef.Name, v.And(d.Age == dRef.Age, d.Ok == dRef.Ok)), "C14:front-end-view-differs-from-the-map-view")
}

// the issue paths of the map view use the schema keys; rewrite them to the front end's key
func renamePaths(codes, from, to string) string {
	return strings.ReplaceAll(codes, "|"+from+"|", "|"+to+"|")
}
