package h

import (
	"strings"
	"time"

	z "github.com/Oudwins/zog"
	"github.com/Oudwins/zog/conf"
	"github.com/Oudwins/zog/i18n"
	"github.com/Oudwins/zog/i18n/en"
	"github.com/Oudwins/zog/i18n/es"
	"github.com/Oudwins/zog/zconst"
	"github.com/Oudwins/zog/parsers/zjson"
	v "github.com/Oudwins/zog/zzverif"
)

func init() { Registry["C08"] = C08_Run }

// C08 — schemas are safe to share between goroutines (by reduction, see DESIGN.md).
// Interleavings are not explored. On every path of a symbolic execution of several
// Parse/Validate/Collect calls on shared schema objects the engine's monitors check
//   (W) no store targets a cell reachable from the shared schemas or from zog's package-level
//       variables, (O) no object is put into a pool twice or touched while pooled.
// With race-free => sequentially consistent, W+O give race freedom for pure callbacks, and with
// C07 (independence from what the pools hand back) "same result as running alone".
// The same harness runs natively with real goroutines under the race detector: that is the
// replay of a monitor violation, and each goroutine also compares its result with the
// sequential one.

type c08Dest struct {
	A  int
	C2 int
	S  string
	L  []int
	N  Inner
	PN *Inner
	C  int
}

func C08_Jobs() []string {
	return []string{"struct/parse", "struct/validate", "prims/parse", "prims/validate", "slice/parse", "collect", "derived", "json", "collect-orders", "i18n", "time-strings", "large-results", "preprocess-roots"}
}
func C08_Covers() []string { return []string{"ran"} }

func c08Schema() *z.StructSchema {
	return z.Struct(z.Schema{
		"a":  z.Int().GT(10).Catch(11),
		"c2": z.Int().TestFunc(func(val any, ctx z.Ctx) bool { return false }, z.IssueCode("gt"), z.Params(map[string]any{"gt": 1, "lo": 2, "hi": 3})),
		"s":  z.String().Min(2).Required().Default("dd"),
		"l":  z.Slice(z.Int().LT(100)).Min(1).Default([]int{1, 2}),
		"n":  z.Struct(z.Schema{"x": z.Int().Required(), "y": z.String().Not().Contains("q")}),
		"pN": z.Ptr(z.Struct(z.Schema{"x": z.Int()})).NotNil(),
		"c":  z.CustomFunc(func(p *int, ctx z.Ctx) bool { return *p != 13 }),
	}).TestFunc(func(p any, ctx z.Ctx) bool { return p.(*c08Dest).A != 99 }).
		TestFunc(func(p any, ctx z.Ctx) bool { return false }, z.IssueCode("two_params"), z.Params(map[string]any{"lo": 1, "hi": 2, "mid": 3}))
}

func C08_Run(job string) {
	a, b, _, _ := split3(job)
	x, y := v.Int("x"), v.Int("y")
	v.MapOrderChoice(false)
	v.FlagReset()
	switch a {
	case "struct":
		schema := c08Schema()
		in := func(k int) map[string]any {
			return map[string]any{"a": x + k, "c2": 1, "l": []any{y, k}, "n": map[string]any{"x": y, "y": "yy"}, "pN": map[string]any{"x": k}, "c": x}
		}
		val := func(k int) c08Dest {
			return c08Dest{A: x + k, C2: 1, S: "", L: []int{y, k}, N: Inner{X: y, Y: "yy"}, PN: &Inner{X: k}, C: x}
		}
		// what each call returns running alone
		want := make([]string, 3)
		for k := range want {
			var d c08Dest
			if b == "parse" {
				want[k] = c08Obs(schema.Parse(in(k), &d), &d)
			} else {
				d = val(k)
				want[k] = c08Obs(schema.Validate(&d), &d)
			}
		}
		v.Freeze(schema)
		v.Concurrently(3, func(k int) {
			var d c08Dest
			var got string
			if b == "parse" {
				got = c08Obs(schema.Parse(in(k), &d, z.WithCtxValue("k", k)), &d)
			} else {
				d = val(k)
				got = c08Obs(schema.Validate(&d, z.WithCtxValue("k", k)), &d)
			}
			if got != want[k] {
				v.Flag()
			}
		})
		v.Unfreeze()
	case "prims":
		si, ss, sb, sf := z.Int().GT(5).LT(50).Default(7), z.String().Email().Catch("c@d.ee"), z.Bool().True(), z.Float64().GTE(1.5)
		sp, spl := z.Ptr(z.Int()).NotNil(), z.Ptr(z.Slice(z.Int()).Min(2))
		v.Freeze(si, ss, sb, sf, sp, spl)
		v.Concurrently(3, func(k int) {
			var i int
			var s string
			var bb bool
			var f float64
			if b == "parse" {
				e1 := si.Parse(x+k, &i)
				e2 := ss.Parse("nope", &s)
				e3 := sb.Parse(k == 1, &bb)
				e4 := sf.Parse(float64(k), &f)
				if (len(e1) == 0) != (x+k > 5 && x+k < 50) || len(e2) != 0 || s != "c@d.ee" || (len(e3) == 0) != (k == 1) || (len(e4) == 0) != (k >= 2) {
					v.Flag()
				}
			} else {
				i, s, bb, f = x+k, "nope", true, 2.5
				e1 := si.Validate(&i)
				e2 := ss.Validate(&s)
				{
					// right after a catching schema ran: nodes behind pointers must still report
					var np0 *int
					one0 := []int{k}
					pone0 := &one0
					if len(sp.Validate(&np0)["$root"]) != 1 || len(spl.Validate(&pone0)["$root"]) != 1 {
						v.Flag()
					}
				}
				e3 := sb.Validate(&bb)
				e4 := sf.Validate(&f)
				if len(e2) != 0 || s != "c@d.ee" || len(e3) != 0 || len(e4) != 0 {
					v.Flag()
				}
				_ = e1
				// pointer nodes: NotNil on a nil pointer, the own test of a pointed-to slice
				var np *int
				one := []int{k}
				pone := &one
				if len(sp.Validate(&np)["$root"]) != 1 || len(spl.Validate(&pone)["$root"]) != 1 {
					v.Flag()
				}
			}
		})
		v.Unfreeze()
	case "slice":
		schema := z.Slice(z.Struct(z.Schema{"x": z.Int().GT(0)})).Min(2)
		v.Freeze(schema)
		v.Concurrently(3, func(k int) {
			var d []Inner
			errs := schema.Parse([]any{map[string]any{"x": x}, map[string]any{"x": k}}, &d)
			wantIssue := !(x > 0) || !(k > 0)
			if (errs != nil) != wantIssue || len(d) != 2 {
				v.Flag()
			}
		})
		v.Unfreeze()
	case "collect":
		schema := c08Schema()
		v.Freeze(schema)
		v.Concurrently(3, func(k int) {
			var d c08Dest
			errs := schema.Parse(map[string]any{"a": k, "n": map[string]any{}}, &d)
			if len(errs["n.x"]) != 1 || errs["n.x"][0].Code != "required" || len(errs["pN"]) != 1 {
				v.Flag()
			}
			msgs := z.Issues.SanitizeMapAndCollect(errs)
			if len(msgs) != len(errs) {
				v.Flag()
			}
			var i int
			l := z.Int().GT(1000).Parse(k, &i)
			z.Issues.CollectList(l)
		})
		v.Unfreeze()
	case "time-strings":
		// time strings with numeric zone offsets, unix seconds and time values on shared schemas
		st := z.Time().After(time.Unix(0, 0))
		ss := z.Struct(z.Schema{"at": z.Time().Required()})
		v.Freeze(st, ss)
		v.Concurrently(3, func(k int) {
			var t time.Time
			in := []string{"2024-01-01T10:00:00+02:30", "2024-01-01T10:00:00-07:00", "2024-01-01T10:00:00+02:30"}[k%3]
			e1 := st.Parse(in, &t)
			var d struct{ At time.Time }
			e2 := ss.Parse(map[string]any{"at": in}, &d)
			want, _ := time.Parse(time.RFC3339, in)
			if len(e1) != 0 || e2 != nil || !t.Equal(want) || !d.At.Equal(want) {
				v.Flag()
			}
			e3 := st.Parse(int64(1700000000+k), &t)
			if len(e3) != 0 || t.Unix() != int64(1700000000+k) {
				v.Flag()
			}
		})
		v.Unfreeze()
	case "large-results":
		// results with many failing paths stay what they were while later calls run
		sch := z.Schema{}
		in := map[string]any{}
		keys := []string{"a", "b", "c", "d", "e", "f", "g", "h", "i", "j"}
		for _, k := range keys {
			sch[k] = z.Int().GT(100)
			in[k] = 1
		}
		type big struct{ A, B, C, D, E, F, G, H, I, J int }
		st := z.Struct(sch)
		v.Freeze(st)
		var kept [3]z.ZogIssueMap
		input := func(k int) map[string]any { // call k: every field fails but the k-th
			m := map[string]any{}
			for i, key := range keys {
				m[key] = 1
				if i == k {
					m[key] = 500
				}
			}
			return m
		}
		_ = in
		_ = kept
		check := func(m z.ZogIssueMap, k int) {
			if len(m) != 10 {
				v.Flag()
			}
			for i, key := range keys {
				if i == k {
					if len(m[key]) != 0 {
						v.Flag()
					}
				} else if len(m[key]) != 1 || m[key][0].Code != "gt" || m[key][0].Path != key {
					v.Flag()
				}
			}
		}
		v.Concurrently(3, func(k int) {
			// (both calls in one body: natively a goroutine gets its own pooled objects back)
			var d1, d2 big
			first := st.Parse(input(k), &d1)
			check(first, k)
			second := st.Parse(input(k+3), &d2)
			check(second, k+3)
			check(first, k)
		})
		v.Unfreeze()
	case "preprocess-roots":
		// Preprocess has a front end of its own and may wrap a list (of lists): the paths of
		// overlapping executions stay their own
		sl := z.Preprocess(func(in []any, c z.Ctx) ([]int, error) { return []int{1, 9, 2}, nil }, z.Slice(z.Int().GT(5)))
		ll := z.Preprocess(func(in string, c z.Ctx) ([][]int, error) { return [][]int{{9}, {9, 1}}, nil }, z.Slice(z.Slice(z.Int().GT(5))))
		v.Freeze(sl)
		v.Freeze(ll)
		v.Concurrently(3, func(k int) {
			var d []int
			e1 := sl.Parse([]any{}, &d)
			var dd [][]int
			e2 := ll.Parse("x", &dd)
			paths := func(l z.ZogIssueList) string {
				out := ""
				for _, i := range l {
					out += i.Path + ";"
				}
				return out
			}
			if paths(e1) != "[0];[2];" || paths(e2) != "[1][1];" {
				v.Flag()
			}
		})
		v.Unfreeze()
	case "collect-orders":
		// SanitizeMapAndCollect / CollectMap on small issue maps, every iteration order of the map
		// (the $first list aliases the issue stored under its path)
		v.MapOrderChoice(true)
		st := z.Struct(z.Schema{"name": z.String().Min(3)})
		v.Freeze(st)
		v.Concurrently(3, func(k int) {
			var d struct{ Name string }
			errs := st.Parse(map[string]any{"name": "ab"}, &d)
			want := ""
			if len(errs["name"]) == 1 {
				want = errs["name"][0].Message
			}
			msgs := z.Issues.SanitizeMapAndCollect(errs)
			if len(msgs) != 2 || len(msgs["$first"]) != 1 || msgs["$first"][0] != want || len(msgs["name"]) != 1 || msgs["name"][0] != want || want == "" {
				v.Flag()
			}
		})
		v.Unfreeze()
	case "i18n":
		// one installation of i18n serves calls in different languages
		old := conf.IssueFormatter
		i18n.SetLanguagesErrsMap(map[string]zconst.LangMap{"en": en.Map, "es": es.Map}, "en")
		sc := z.String().Min(5)
		wantEn := strings.ReplaceAll(en.Map["string"]["min"], "{{min}}", "5")
		wantEs := strings.ReplaceAll(es.Map["string"]["min"], "{{min}}", "5")
		v.Freeze(sc)
		v.Concurrently(3, func(k int) {
			var d string
			lang := []string{"es", "en", "fr"}[k%3]
			errs := sc.Parse("ab", &d, z.WithCtxValue("lang", lang))
			want := wantEn
			if lang == "es" {
				want = wantEs
			}
			if len(errs) != 1 || errs[0].Message != want {
				v.Flag()
			}
		})
		v.Unfreeze()
		conf.IssueFormatter = old
	case "json":
		// request documents through the JSON front end on shared schemas: undecodable, null and
		// valid bodies, a struct root and a pointer root, issues collected afterwards
		st := z.Struct(z.Schema{"x": z.Int().GT(0).Required()})
		pst := z.Ptr(z.Struct(z.Schema{"x": z.Int().GT(0).Required()})).NotNil()
		docs := []string{`{`, `null`, `{"x":0}`, `[1]`, `{"x":5}`}
		v.Freeze(st, pst)
		v.Concurrently(3, func(k int) {
			for r := 0; r < 2; r++ {
				doc := docs[(k+2*r)%len(docs)]
				var d Inner
				var pd *Inner
				e1 := st.Parse(zjson.Decode(strings.NewReader(doc)), &d)
				e2 := pst.Parse(zjson.Decode(strings.NewReader(doc)), &pd)
				want := map[string]string{`{`: "invalid_json", `null`: "invalid_json", `[1]`: "invalid_json", `{"x":0}`: "gt", `{"x":5}`: ""}[doc]
				key := "$root"
				if want == "gt" {
					key = "x"
				}
				if want == "" {
					if e1 != nil || e2 != nil || d.X != 5 || pd == nil || pd.X != 5 {
						v.Flag()
					}
				} else if len(e1[key]) != 1 || e1[key][0].Code != want || len(e2[key]) != 1 || e2[key][0].Code != want || len(e1) != 2 || len(e2) != 2 {
					v.Flag()
				}
				if e1 != nil && e1["$first"][0].Message == "" {
					v.Flag()
				}
				z.Issues.CollectMap(e1)
				z.Issues.SanitizeMapAndCollect(e2)
			}
		})
		v.Unfreeze()
	case "derived":
		base := c08Schema()
		pick := base.Pick("a", "s")
		ext := base.Extend(z.Schema{"extra": z.Int()})
		v.Freeze(base, pick, ext)
		v.Concurrently(3, func(k int) {
			var d c08Dest
			e := pick.Parse(map[string]any{"a": x, "s": "long"}, &d)
			if e != nil && len(e["$root"]) == 0 {
				v.Flag()
			}
		})
		v.Unfreeze()
	}
	v.Cover("ran")
	v.Assert(v.Flagged() == 0, "C08:concurrent-result-differs-from-running-alone")
}

func c08Obs(errs z.ZogIssueMap, d *c08Dest) string {
	s := ""
	for _, k := range []string{"$root", "a", "c2", "s", "l", "l[0]", "l[1]", "n.x", "n.y", "pN", "pN.x", "c"} {
		s += k + ":"
		for _, e := range errs[k] {
			s += e.Code + "|" + e.Message + ","
		}
		s += ";"
	}
	s += v.Sprint(len(errs), d.A, d.S, len(d.L), d.N.X, d.N.Y, d.PN != nil, d.C)
	return s
}
