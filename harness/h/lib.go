package h

import (
	"time"

	z "github.com/Oudwins/zog"
	v "github.com/Oudwins/zog/zzverif"
)

// ---- schema descriptors with an independent reference semantics ------------------------
//
// A Node describes one schema node: how to build it with the public builder API, what
// (nondeterministic) input it receives, and — written from the documentation, not from
// zog's code — which issues it must produce and what its destination must hold.

const (
	Parse    = 0
	Validate = 1
)

// input classes (Parse mode)
const (
	cMissing = iota // key not present / element not applicable
	cNil            // explicit nil
	cBlank          // whitespace-only string "  "
	cVal            // a value of the node's own type (symbolic)
	cBad            // a value that cannot be coerced
	cAlt            // an alternative coercible representation (decimal string, "on", int for string ...)
)

type Iss struct{ Path, Code, Dtype string }

type Node interface {
	Schema() z.ZogSchema
	Input() (val any, present bool) // Parse-mode input
	Prep(mode int, dest any)        // Parse: pre-fill dest with a sentinel; Validate: store the value
	Ref(mode int, path string) []Iss
	DestOK(mode int, dest any) bool // dest equals the reference outcome (after Ref)
	Holds(mode int, dest any) bool  // C01: declared constraints hold on dest (independent of Ref)
	Absent(mode int) bool
}

func joinPath(p, k string) string {
	if p == "" {
		return k
	}
	if len(k) > 0 && k[0] == '[' {
		return p + k
	}
	return p + "." + k
}

func idx(i int) string { return "[" + string(rune('0'+i)) + "]" }

// deco bits
const (
	dReq   = 1
	dDef   = 2
	dCatch = 4
)

// ================= Int leaf =================

const intPre = 424242

type IntNode struct {
	name                  string
	Req, HasDef, HasCatch bool
	Def, Catch, G, L      int
	NT                    int // 0: no tests, 1: GT(G), 2: GT(G) and LT(L)
	Class, N              int
	pre                   int
	exp                   int
	untouched             bool
	zeroPre               bool // the destination is created by zog (slice element, allocated pointer): untouched means zero
}

func newIntDeco(name string, deco, nt int) *IntNode {
	n := &IntNode{name: name, Req: deco&dReq != 0, HasDef: deco&dDef != 0, HasCatch: deco&dCatch != 0, NT: nt, pre: intPre}
	if n.HasDef {
		n.Def = v.Int(name + ".def")
	}
	if n.HasCatch {
		n.Catch = v.Int(name + ".catch")
	}
	if nt >= 1 {
		n.G = v.Int(name + ".gt")
	}
	if nt >= 2 {
		n.L = v.Int(name + ".lt")
	}
	return n
}

// newInt: decoration fixed by the caller, input class chosen among classes.
func newInt(name string, deco, nt int, classes []int) *IntNode {
	n := newIntDeco(name, deco, nt)
	n.draw(name, classes)
	return n
}

func (n *IntNode) draw(name string, classes []int) {
	n.Class = classes[v.Choice(name+".class", len(classes))]
	if n.Class == cVal || n.Class == cAlt {
		n.N = v.Int(name + ".in")
	}
}

// copy of the decoration with a fresh input (slice elements share one element schema)
func (n *IntNode) elem(name string, classes []int, pre int) *IntNode {
	c := *n
	c.name = name
	c.pre = pre
	c.draw(name, classes)
	return &c
}

func (n *IntNode) Schema() z.ZogSchema { return n.schema() }
func (n *IntNode) schema() *z.NumberSchema[int] {
	s := z.Int()
	if n.NT >= 1 {
		s = s.GT(n.G)
	}
	if n.NT >= 2 {
		s = s.LT(n.L)
	}
	if n.Req {
		s = s.Required()
	}
	if n.HasDef {
		s = s.Default(n.Def)
	}
	if n.HasCatch {
		s = s.Catch(n.Catch)
	}
	return s
}

func (n *IntNode) Input() (any, bool) {
	switch n.Class {
	case cMissing:
		return nil, false
	case cNil:
		return nil, true
	case cBlank:
		return " \t", true
	case cVal:
		return n.N, true
	case cBad:
		return "zz", true
	case cAlt:
		return v.Itoa(n.N), true
	}
	panic("int class")
}

func (n *IntNode) Prep(mode int, dest any) {
	d := dest.(*int)
	if mode == Parse {
		if n.zeroPre {
			n.pre = 0
			return
		}
		*d = n.pre
	} else {
		*d = n.N
		n.pre = n.N
	}
}

func (n *IntNode) Absent(mode int) bool {
	if mode == Parse {
		return n.Class == cMissing || n.Class == cNil || n.Class == cBlank
	}
	return n.N == 0
}

func (n *IntNode) Ref(mode int, path string) []Iss {
	n.untouched = false
	var val int
	var out []Iss
	fail := false
	if n.Absent(mode) {
		if n.HasDef {
			val = n.Def
		} else if n.Req {
			fail, n.untouched = true, true
			out = []Iss{{path, "required", "number"}}
		} else {
			n.untouched = true
			return nil
		}
	} else if mode == Parse && n.Class == cBad {
		fail, n.untouched = true, true
		out = []Iss{{path, "coerce", "number"}}
	} else {
		val = n.N
	}
	if !fail {
		if n.NT >= 1 && !(val > n.G) {
			out = append(out, Iss{path, "gt", "number"})
		}
		if n.NT >= 2 && !(val < n.L) {
			out = append(out, Iss{path, "lt", "number"})
		}
		fail = len(out) > 0
	}
	if n.HasCatch && fail {
		n.exp, n.untouched = n.Catch, false
		return nil
	}
	n.exp = val
	return out
}

func (n *IntNode) DestOK(mode int, dest any) bool {
	d := *dest.(*int)
	if n.untouched {
		return d == n.pre
	}
	return d == n.exp
}

func (n *IntNode) testsHold(d int) bool {
	ok := true
	if n.NT >= 1 {
		ok = v.And(ok, d > n.G)
	}
	if n.NT >= 2 {
		ok = v.And(ok, d < n.L)
	}
	return ok
}

func (n *IntNode) Holds(mode int, dest any) bool {
	d := *dest.(*int)
	caught := v.And(n.HasCatch, d == n.Catch)
	if n.Absent(mode) && !n.HasDef {
		if n.Req {
			return caught // a required node must have had a value (or hold its catch value)
		}
		return true // absent optional: exempt
	}
	if mode == Parse && n.Class == cBad {
		return caught
	}
	return v.Or(n.testsHold(d), caught)
}

// ================= String leaf =================

const strPre = "~pre~"

type StrNode struct {
	name                  string
	Req, HasDef, HasCatch bool
	Def, Catch            string
	NT                    int // 0, 1: Min(M), 2: Min(M) and Max(X)
	M, X                  int
	Class                 int
	S                     string
	pre, exp              string
	untouched             bool
	zeroPre               bool
}

// printable, non-space ASCII (whitespace-only strings are the subject of C04)
func visible(name string, max int) string {
	s := v.String(name, max)
	ok := 1
	for i := 0; i < len(s); i++ {
		ok &= v.B2I(s[i] > ' ') & v.B2I(s[i] < 0x7f)
	}
	v.Assume(ok == 1)
	return s
}

func newStr(name string, deco, nt int, classes []int) *StrNode {
	n := &StrNode{name: name, Req: deco&dReq != 0, HasDef: deco&dDef != 0, HasCatch: deco&dCatch != 0, NT: nt, pre: strPre}
	if n.HasDef {
		n.Def = visible(name+".def", 2)
	}
	if n.HasCatch {
		n.Catch = visible(name+".catch", 2)
	}
	if nt >= 1 {
		n.M = v.Int(name + ".min")
	}
	if nt >= 2 {
		n.X = v.Int(name + ".max")
	}
	n.draw(name, classes)
	return n
}

func (n *StrNode) draw(name string, classes []int) {
	n.Class = classes[v.Choice(name+".class", len(classes))]
	switch n.Class {
	case cVal:
		n.S = visible(name+".in", 2)
		v.Assume(len(n.S) > 0)
	case cAlt:
		n.S = "17" // the int 17 coerces to "17"
	}
}

func (n *StrNode) elem(name string, classes []int, pre string) *StrNode {
	c := *n
	c.name, c.pre = name, pre
	c.draw(name, classes)
	return &c
}

func (n *StrNode) Schema() z.ZogSchema { return n.schema() }
func (n *StrNode) schema() *z.StringSchema[string] {
	s := z.String()
	if n.NT >= 1 {
		s = s.Min(n.M)
	}
	if n.NT >= 2 {
		s = s.Max(n.X)
	}
	if n.Req {
		s = s.Required()
	}
	if n.HasDef {
		s = s.Default(n.Def)
	}
	if n.HasCatch {
		s = s.Catch(n.Catch)
	}
	return s
}

func (n *StrNode) Input() (any, bool) {
	switch n.Class {
	case cMissing:
		return nil, false
	case cNil:
		return nil, true
	case cBlank:
		return "\n ", true
	case cVal:
		return n.S, true
	case cAlt:
		return 17, true
	}
	panic("str class")
}

func (n *StrNode) Prep(mode int, dest any) {
	d := dest.(*string)
	if mode == Parse {
		if n.zeroPre {
			n.pre = ""
			return
		}
		*d = n.pre
	} else {
		*d = n.S
		n.pre = n.S
	}
}

func (n *StrNode) Absent(mode int) bool {
	if mode == Parse {
		return n.Class == cMissing || n.Class == cNil || n.Class == cBlank
	}
	return len(n.S) == 0
}

func (n *StrNode) Ref(mode int, path string) []Iss {
	n.untouched = false
	var val string
	var out []Iss
	fail := false
	if n.Absent(mode) {
		if n.HasDef {
			val = n.Def
		} else if n.Req {
			fail, n.untouched = true, true
			out = []Iss{{path, "required", "string"}}
		} else {
			n.untouched = true
			return nil
		}
	} else {
		val = n.S
	}
	if !fail {
		if n.NT >= 1 && !(len(val) >= n.M) {
			out = append(out, Iss{path, "min", "string"})
		}
		if n.NT >= 2 && !(len(val) <= n.X) {
			out = append(out, Iss{path, "max", "string"})
		}
		fail = len(out) > 0
	}
	if n.HasCatch && fail {
		n.exp, n.untouched = n.Catch, false
		return nil
	}
	n.exp = val
	return out
}

func (n *StrNode) DestOK(mode int, dest any) bool {
	d := *dest.(*string)
	if n.untouched {
		return d == n.pre
	}
	return d == n.exp
}

func (n *StrNode) Holds(mode int, dest any) bool {
	d := *dest.(*string)
	caught := v.And(n.HasCatch, d == n.Catch)
	if n.Absent(mode) && !n.HasDef {
		if n.Req {
			return caught
		}
		return true
	}
	ok := true
	if n.NT >= 1 {
		ok = v.And(ok, len(d) >= n.M)
	}
	if n.NT >= 2 {
		ok = v.And(ok, len(d) <= n.X)
	}
	return v.Or(ok, caught)
}

// ================= Bool leaf =================

type BoolNode struct {
	name                  string
	Req, HasDef, HasCatch bool
	Def, Catch            bool
	NT                    int // 0, 1: True()
	Class                 int
	B                     bool
	pre, exp              bool
	untouched             bool
	pre0, preDrawn        bool
}

func newBool(name string, deco, nt int, classes []int) *BoolNode {
	n := &BoolNode{name: name, Req: deco&dReq != 0, HasDef: deco&dDef != 0, HasCatch: deco&dCatch != 0, NT: nt}
	if n.HasDef {
		n.Def = v.Bool(name + ".def")
	}
	if n.HasCatch {
		n.Catch = v.Bool(name + ".catch")
	}
	n.Class = classes[v.Choice(name+".class", len(classes))]
	if n.Class == cVal {
		n.B = v.Bool(name + ".in")
	}
	if n.Class == cAlt {
		n.B = true // "on"
	}
	return n
}

func (n *BoolNode) Schema() z.ZogSchema {
	s := z.Bool()
	if n.NT >= 1 {
		s = s.True()
	}
	if n.Req {
		s = s.Required()
	}
	if n.HasDef {
		s = s.Default(n.Def)
	}
	if n.HasCatch {
		s = s.Catch(n.Catch)
	}
	return s
}

func (n *BoolNode) Input() (any, bool) {
	switch n.Class {
	case cMissing:
		return nil, false
	case cNil:
		return nil, true
	case cBlank:
		return "  ", true
	case cVal:
		return n.B, true
	case cBad:
		return "zz", true
	case cAlt:
		return "on", true
	}
	panic("bool class")
}

func (n *BoolNode) Prep(mode int, dest any) {
	d := dest.(*bool)
	if mode == Parse {
		if !n.preDrawn {
			n.pre0, n.preDrawn = v.Bool(n.name+".pre"), true // arbitrary pre-value
		}
		n.pre = n.pre0
		*d = n.pre
	} else {
		*d = n.B
		n.pre = n.B
	}
}

func (n *BoolNode) Absent(mode int) bool {
	if mode == Parse {
		return n.Class == cMissing || n.Class == cNil || n.Class == cBlank
	}
	return !n.B
}

func (n *BoolNode) Ref(mode int, path string) []Iss {
	n.untouched = false
	var val bool
	var out []Iss
	fail := false
	if n.Absent(mode) {
		if n.HasDef {
			val = n.Def
		} else if n.Req {
			fail, n.untouched = true, true
			out = []Iss{{path, "required", "bool"}}
		} else {
			n.untouched = true
			return nil
		}
	} else if mode == Parse && n.Class == cBad {
		fail, n.untouched = true, true
		out = []Iss{{path, "coerce", "bool"}}
	} else {
		val = n.B
	}
	if !fail {
		if n.NT >= 1 && !val {
			out = append(out, Iss{path, "eq", "bool"})
		}
		fail = len(out) > 0
	}
	if n.HasCatch && fail {
		n.exp, n.untouched = n.Catch, false
		return nil
	}
	n.exp = val
	return out
}

func (n *BoolNode) DestOK(mode int, dest any) bool {
	d := *dest.(*bool)
	if n.untouched {
		return d == n.pre
	}
	return d == n.exp
}

func (n *BoolNode) Holds(mode int, dest any) bool {
	d := *dest.(*bool)
	caught := v.And(n.HasCatch, d == n.Catch)
	if n.Absent(mode) && !n.HasDef {
		if n.Req {
			return caught
		}
		return true
	}
	if mode == Parse && n.Class == cBad {
		return caught
	}
	ok := true
	if n.NT >= 1 {
		ok = d
	}
	return v.Or(ok, caught)
}

// ================= Slice of Int =================

type SliceNode struct {
	name        string
	Req, HasDef bool
	Def         []int
	K           int // Min(K) when NT >= 1
	NT          int
	El          *IntNode // element decoration
	Class       int      // cMissing, cNil, cVal (list), cAlt (scalar), cBlank
	els         []*IntNode
	inEls       []*IntNode
	exp         []*IntNode
	untouched   bool
	preLen      int
}

func newSlice(name string, deco, nt int, el *IntNode, classes []int, elClasses []int, maxLen int) *SliceNode {
	n := &SliceNode{name: name, Req: deco&dReq != 0, HasDef: deco&dDef != 0, NT: nt, El: el}
	if n.HasDef {
		n.Def = []int{v.Int(name + ".def0")}
	}
	if nt >= 1 {
		n.K = v.Int(name + ".min")
	}
	n.Class = classes[v.Choice(name+".class", len(classes))]
	switch n.Class {
	case cVal:
		k := v.Choice(name+".len", maxLen+1)
		for i := 0; i < k; i++ {
			n.inEls = append(n.inEls, el.elem(name+idx(i), elClasses, 0))
		}
	case cAlt:
		n.inEls = []*IntNode{el.elem(name+".scalar", []int{cVal}, 0)}
	}
	return n
}

func (n *SliceNode) Schema() z.ZogSchema { return n.schema() }
func (n *SliceNode) schema() *z.SliceSchema {
	s := z.Slice(n.El.schema())
	if n.NT >= 1 {
		s = s.Min(n.K)
	}
	if n.Req {
		s = s.Required()
	}
	if n.HasDef {
		s = s.Default(n.Def)
	}
	return s
}

func (n *SliceNode) Input() (any, bool) {
	switch n.Class {
	case cMissing:
		return nil, false
	case cNil:
		return nil, true
	case cBlank:
		return " ", true
	case cAlt:
		x, _ := n.inEls[0].Input()
		return x, true
	}
	out := make([]any, len(n.inEls))
	for i, e := range n.inEls {
		out[i], _ = e.Input()
	}
	return out, true
}

func (n *SliceNode) Prep(mode int, dest any) {
	d := dest.(*[]int)
	if mode == Parse {
		*d = []int{intPre}
		n.preLen = 1
		return
	}
	// Validate: the value in place
	xs := make([]int, len(n.inEls))
	for i, e := range n.inEls {
		xs[i] = e.N
		e.pre = e.N
	}
	if n.Class == cNil || n.Class == cMissing {
		xs = nil
	}
	*d = xs
	n.preLen = len(xs)
}

func (n *SliceNode) Absent(mode int) bool {
	if mode == Parse {
		return n.Class == cMissing || n.Class == cNil || n.Class == cBlank
	}
	return len(n.inEls) == 0
}

func (n *SliceNode) Ref(mode int, path string) []Iss {
	n.untouched = false
	n.exp = nil
	els := n.inEls
	if n.Absent(mode) {
		if n.HasDef {
			els = nil
			for i, dv := range n.Def {
				e := *n.El
				e.name, e.Class, e.N, e.pre = n.name+".d"+idx(i), cVal, dv, 0
				if mode == Validate {
					e.pre = dv
				}
				els = append(els, &e)
			}
		} else if n.Req {
			n.untouched = true
			return []Iss{{path, "required", "slice"}}
		} else {
			n.untouched = true
			return nil
		}
	}
	var out []Iss
	for i, e := range els {
		out = append(out, e.Ref(mode, joinPath(path, idx(i)))...)
	}
	n.exp = els
	if n.NT >= 1 && !(len(els) >= n.K) {
		p := path
		out = append(out, Iss{p, "min", "slice"})
	}
	return out
}

func (n *SliceNode) DestOK(mode int, dest any) bool {
	d := *dest.(*[]int)
	if n.untouched {
		if mode == Parse {
			return len(d) == 1 && d[0] == intPre
		}
		return len(d) == n.preLen
	}
	if len(d) != len(n.exp) {
		return false
	}
	ok := true
	for i, e := range n.exp {
		ok = v.And(ok, e.DestOK(mode, &d[i]))
	}
	return ok
}

func (n *SliceNode) Holds(mode int, dest any) bool {
	d := *dest.(*[]int)
	if n.Absent(mode) && !n.HasDef {
		return !n.Req
	}
	ok := true
	if n.NT >= 1 {
		ok = len(d) >= n.K
	}
	// elements: every element placed must satisfy the element schema
	els := n.inEls
	if n.Absent(mode) {
		els = nil
	}
	for i := range d {
		var e *IntNode
		if i < len(els) {
			e = els[i]
		} else {
			c := *n.El
			c.Class, c.N = cVal, d[i]
			e = &c
		}
		ok = v.And(ok, e.Holds(mode, &d[i]))
	}
	return ok
}

// ================= Pointer to Int =================

type PtrNode struct {
	name      string
	NotNil    bool
	El        *IntNode
	IsNil     bool // Validate: destination pointer is nil
	untouched bool
	nilDrawn  bool
	nilChoice bool
	preDrawn  bool
	prefilled bool
	preDest   *int
}

func newPtr(name string, notNil bool, el *IntNode) *PtrNode {
	return &PtrNode{name: name, NotNil: notNil, El: el}
}

func (n *PtrNode) Schema() z.ZogSchema {
	s := z.Ptr(n.El.schema())
	if n.NotNil {
		s = s.NotNil()
	}
	return s
}
func (n *PtrNode) Input() (any, bool) { return n.El.Input() }
func (n *PtrNode) Prep(mode int, dest any) {
	d := dest.(**int)
	if mode == Parse {
		// the destination pointer is nil, or already points to a value the caller owns
		if !n.preDrawn {
			n.preDrawn, n.prefilled = true, v.Choice(n.name+".prefilled", 2) == 1
		}
		if n.prefilled {
			cell := new(int) // a fresh pointee per run (two runs of one shape must not share it)
			*cell = 777
			*d = cell
			n.El.pre = 777
			n.El.zeroPre = false
		} else {
			*d = nil
			n.El.pre = 0
			n.El.zeroPre = true
		}
		n.preDest = *d
		return
	}
	if !n.nilDrawn {
		n.nilDrawn, n.nilChoice = true, v.Choice(n.name+".nil", 2) == 1
	}
	n.IsNil = n.nilChoice && !forcePtrNonNil
	if n.IsNil {
		*d = nil
	} else {
		x := n.El.N
		n.El.pre = x
		*d = &x
	}
}
func (n *PtrNode) Absent(mode int) bool {
	if mode == Parse {
		return n.El.Absent(Parse)
	}
	return n.IsNil
}
func (n *PtrNode) Ref(mode int, path string) []Iss {
	n.untouched = false
	if n.Absent(mode) {
		n.untouched = true
		if n.NotNil {
			return []Iss{{path, "not_nil", "number"}}
		}
		return nil
	}
	return n.El.Ref(mode, path)
}
func (n *PtrNode) DestOK(mode int, dest any) bool {
	d := *dest.(**int)
	if mode == Parse {
		if n.untouched {
			// absent: the pointer is left exactly as it was (nil, or the caller's pointee untouched)
			return d == n.preDest && (d == nil || *d == 777)
		}
		if d == nil || (n.prefilled && d != n.preDest) {
			return false // present: allocated if nil, filled in place otherwise
		}
		return n.El.DestOK(mode, d)
	}
	if n.untouched {
		return d == nil
	}
	if d == nil {
		return false
	}
	return n.El.DestOK(mode, d)
}
func (n *PtrNode) Holds(mode int, dest any) bool {
	d := *dest.(**int)
	if n.Absent(mode) {
		return !n.NotNil
	}
	if d == nil {
		return false
	}
	return n.El.Holds(mode, d)
}

// ================= Custom[int] =================

type CustomNode struct {
	name  string
	K     int
	Class int // cVal, cBad
	N     int
	exp   int
	unt   bool
}

func newCustom(name string, classes []int) *CustomNode {
	n := &CustomNode{name: name, K: v.Int(name + ".k")}
	n.Class = classes[v.Choice(name+".class", len(classes))]
	if n.Class == cVal {
		n.N = v.Int(name + ".in")
	}
	return n
}
func (n *CustomNode) Schema() z.ZogSchema {
	k := n.K
	return z.CustomFunc(func(p *int, ctx z.Ctx) bool { return *p > k }, z.IssueCode("cust"))
}
func (n *CustomNode) Input() (any, bool) {
	if n.Class == cBad {
		return "zz", true
	}
	return n.N, true
}
func (n *CustomNode) Prep(mode int, dest any) {
	d := dest.(*int)
	if mode == Parse {
		*d = intPre
	} else {
		*d = n.N
	}
}
func (n *CustomNode) Absent(mode int) bool { return false }
func (n *CustomNode) Ref(mode int, path string) []Iss {
	n.unt = false
	if mode == Parse && n.Class == cBad {
		n.unt = true
		return []Iss{{path, "coerce", "custom"}}
	}
	n.exp = n.N
	if !(n.N > n.K) {
		return []Iss{{path, "cust", "custom"}}
	}
	return nil
}
func (n *CustomNode) DestOK(mode int, dest any) bool {
	d := *dest.(*int)
	if n.unt {
		return d == intPre
	}
	return d == n.exp
}
func (n *CustomNode) Holds(mode int, dest any) bool {
	if mode == Parse && n.Class == cBad {
		return false
	}
	return *dest.(*int) > n.K
}

// ================= Structs =================

type Inner struct {
	X int
	Y string
}

type Dest struct {
	I, J int
	S, T string
	B    bool
	LI   []int
	PI   *int
	N    Inner
	PN   *Inner
	LN   []Inner
	C    int
	U    int // never named by a schema
	F    float64
	W    time.Time
}

func destField(d any, key string) any {
	switch p := d.(type) {
	case *Dest:
		switch key {
		case "i":
			return &p.I
		case "j":
			return &p.J
		case "s":
			return &p.S
		case "t":
			return &p.T
		case "b":
			return &p.B
		case "lI":
			return &p.LI
		case "pI":
			return &p.PI
		case "n":
			return &p.N
		case "pN":
			return &p.PN
		case "lN":
			return &p.LN
		case "c":
			return &p.C
		case "f":
			return &p.F
		case "w":
			return &p.W
		}
	case *Inner:
		switch key {
		case "x":
			return &p.X
		case "y":
			return &p.Y
		}
	}
	panic("destField " + key)
}

type StructNode struct {
	name  string
	Keys  []string
	Kids  []Node
	Class int // cVal (map), cMissing, cNil, cBad
	TCode string
	TX    int // struct-level test: Inner.X != TX / Dest.I != TX, when TCode != ""
	bad   bool
}

func newStruct(name string, keys []string, kids []Node, classes []int) *StructNode {
	n := &StructNode{name: name, Keys: keys, Kids: kids}
	n.Class = classes[v.Choice(name+".class", len(classes))]
	return n
}

func (n *StructNode) Schema() z.ZogSchema { return n.schema() }
func (n *StructNode) schema() *z.StructSchema {
	sh := z.Schema{}
	for i, k := range n.Keys {
		sh[k] = n.Kids[i].Schema()
	}
	s := z.Struct(sh)
	if n.TCode != "" {
		tx := n.TX
		s = s.TestFunc(func(p any, ctx z.Ctx) bool {
			switch d := p.(type) {
			case *Inner:
				return d.X != tx
			case *Dest:
				return d.I != tx
			}
			return false
		}, z.IssueCode(n.TCode))
	}
	return s
}

func (n *StructNode) Input() (any, bool) {
	switch n.Class {
	case cMissing:
		return nil, false
	case cNil:
		return nil, true
	case cBad:
		return 5, true
	}
	m := map[string]any{}
	for i, k := range n.Keys {
		if x, ok := n.Kids[i].Input(); ok {
			m[k] = x
		}
	}
	return m, true
}

func (n *StructNode) Prep(mode int, dest any) {
	for i, k := range n.Keys {
		n.Kids[i].Prep(mode, destField(dest, k))
	}
}

func (n *StructNode) Absent(mode int) bool { return false }

// when the struct's own data is missing/nil every field is absent
func (n *StructNode) kidAbsentAll() bool { return n.Class == cMissing || n.Class == cNil }

func (n *StructNode) Ref(mode int, path string) []Iss {
	n.bad = false
	if mode == Parse && n.Class == cBad {
		n.bad = true
		return []Iss{{path, "coerce", "struct"}}
	}
	var out []Iss
	for i, k := range n.Keys {
		kid := n.Kids[i]
		if mode == Parse && n.kidAbsentAll() {
			forceMissing(kid)
		}
		out = append(out, kid.Ref(mode, joinPath(path, k))...)
	}
	return out
}

// forceMissing: the parent supplied no data at all
func forceMissing(k Node) {
	switch x := k.(type) {
	case *IntNode:
		x.Class = cMissing
	case *StrNode:
		x.Class = cMissing
	case *BoolNode:
		x.Class = cMissing
	case *SliceNode:
		x.Class = cMissing
	case *PtrNode:
		x.El.Class = cMissing
	case *StructNode:
		x.Class = cMissing
	case *SliceStructNode:
		x.Class = cMissing
	case *PtrStructNode:
		x.El.Class = cMissing
	}
}

func (n *StructNode) DestOK(mode int, dest any) bool {
	ok := true
	for i, k := range n.Keys {
		if n.bad {
			continue
		}
		ok = v.And(ok, n.Kids[i].DestOK(mode, destField(dest, k)))
	}
	return ok
}

func (n *StructNode) Holds(mode int, dest any) bool {
	if mode == Parse && n.Class == cBad {
		return false
	}
	ok := true
	for i, k := range n.Keys {
		if mode == Parse && n.kidAbsentAll() {
			forceMissing(n.Kids[i])
		}
		ok = v.And(ok, n.Kids[i].Holds(mode, destField(dest, k)))
	}
	return ok
}

// struct-level test outcome is appended by the caller (needs the final destination)
func (n *StructNode) structTestIss(path string, dest any) []Iss {
	if n.TCode == "" || n.bad {
		return nil
	}
	var x int
	switch d := dest.(type) {
	case *Inner:
		x = d.X
	case *Dest:
		x = d.I
	}
	if x == n.TX {
		return []Iss{{path, n.TCode, "struct"}}
	}
	return nil
}

// ================= Slice of Struct, Pointer to Struct (destination type Inner) =================

func markZeroPre(n Node) {
	switch x := n.(type) {
	case *IntNode:
		x.zeroPre = true
	case *StrNode:
		x.zeroPre = true
	case *StructNode:
		for _, k := range x.Kids {
			markZeroPre(k)
		}
	}
}

type SliceStructNode struct {
	name      string
	Req       bool
	NT        int
	K         int
	Class     int // cMissing, cNil, cVal
	Els       []*StructNode
	untouched bool
}

func newSliceStruct(name string, req bool, nt int, classes []int, maxLen int, mkEl func(i int) *StructNode) *SliceStructNode {
	n := &SliceStructNode{name: name, Req: req, NT: nt}
	if nt >= 1 {
		n.K = v.Int(name + ".min")
	}
	n.Class = classes[v.Choice(name+".class", len(classes))]
	if n.Class == cVal {
		k := v.Choice(name+".len", maxLen+1)
		for i := 0; i < k; i++ {
			el := mkEl(i)
			markZeroPre(el)
			n.Els = append(n.Els, el)
		}
	}
	return n
}

// element schema: built from the first element description, or from a fresh one
func (n *SliceStructNode) elSchema(proto *StructNode) *z.StructSchema { return proto.schema() }

type sliceStructProto struct{ proto *StructNode }

var ssProto = map[*SliceStructNode]*StructNode{}

func (n *SliceStructNode) withProto(p *StructNode) *SliceStructNode { ssProto[n] = p; return n }

func (n *SliceStructNode) Schema() z.ZogSchema { return n.schema() }
func (n *SliceStructNode) schema() *z.SliceSchema {
	s := z.Slice(ssProto[n].schema())
	if n.NT >= 1 {
		s = s.Min(n.K)
	}
	if n.Req {
		s = s.Required()
	}
	return s
}
func (n *SliceStructNode) Input() (any, bool) {
	switch n.Class {
	case cMissing:
		return nil, false
	case cNil:
		return nil, true
	}
	out := make([]any, len(n.Els))
	for i, e := range n.Els {
		out[i], _ = e.Input()
	}
	return out, true
}
func (n *SliceStructNode) Prep(mode int, dest any) {
	d := dest.(*[]Inner)
	if mode == Parse {
		*d = nil
		for _, e := range n.Els {
			e.Prep(Parse, &Inner{})
		}
		return
	}
	xs := make([]Inner, len(n.Els))
	for i, e := range n.Els {
		e.Prep(Validate, &xs[i])
	}
	if n.Class != cVal {
		xs = nil
	}
	*d = xs
}
func (n *SliceStructNode) Absent(mode int) bool {
	if mode == Parse {
		return n.Class == cMissing || n.Class == cNil
	}
	return len(n.Els) == 0
}
func (n *SliceStructNode) Ref(mode int, path string) []Iss {
	n.untouched = false
	if n.Absent(mode) {
		n.untouched = true
		if n.Req {
			return []Iss{{path, "required", "slice"}}
		}
		return nil
	}
	var out []Iss
	for i, e := range n.Els {
		out = append(out, e.Ref(mode, joinPath(path, idx(i)))...)
	}
	if n.NT >= 1 && !(len(n.Els) >= n.K) {
		out = append(out, Iss{path, "min", "slice"})
	}
	return out
}
func (n *SliceStructNode) DestOK(mode int, dest any) bool {
	d := *dest.(*[]Inner)
	if n.untouched {
		return len(d) == 0
	}
	if len(d) != len(n.Els) {
		return false
	}
	ok := true
	for i, e := range n.Els {
		ok = v.And(ok, e.DestOK(mode, &d[i]))
	}
	return ok
}
func (n *SliceStructNode) Holds(mode int, dest any) bool {
	d := *dest.(*[]Inner)
	if n.Absent(mode) {
		return !n.Req
	}
	ok := true
	if n.NT >= 1 {
		ok = len(d) >= n.K
	}
	if len(d) != len(n.Els) {
		return false
	}
	for i, e := range n.Els {
		ok = v.And(ok, e.Holds(mode, &d[i]))
	}
	return ok
}

type PtrStructNode struct {
	name      string
	NotNil    bool
	El        *StructNode // Class of El decides presence in Parse (cVal / cMissing / cNil)
	IsNil     bool
	nilDrawn  bool
	nilChoice bool
	untouched bool
}

func newPtrStruct(name string, notNil bool, el *StructNode) *PtrStructNode {
	markZeroPre(el)
	return &PtrStructNode{name: name, NotNil: notNil, El: el}
}
func (n *PtrStructNode) Schema() z.ZogSchema {
	s := z.Ptr(n.El.schema())
	if n.NotNil {
		s = s.NotNil()
	}
	return s
}
func (n *PtrStructNode) Input() (any, bool) { return n.El.Input() }
func (n *PtrStructNode) Prep(mode int, dest any) {
	d := dest.(**Inner)
	if mode == Parse {
		*d = nil
		n.El.Prep(Parse, &Inner{})
		return
	}
	if !n.nilDrawn {
		n.nilDrawn, n.nilChoice = true, v.Choice(n.name+".nil", 2) == 1
	}
	n.IsNil = n.nilChoice && !forcePtrNonNil
	if n.IsNil {
		*d = nil
		return
	}
	x := &Inner{}
	n.El.Prep(Validate, x)
	*d = x
}
func (n *PtrStructNode) Absent(mode int) bool {
	if mode == Parse {
		return n.El.Class == cMissing || n.El.Class == cNil
	}
	return n.IsNil
}
func (n *PtrStructNode) Ref(mode int, path string) []Iss {
	n.untouched = false
	if n.Absent(mode) {
		n.untouched = true
		if n.NotNil {
			return []Iss{{path, "not_nil", "struct"}}
		}
		return nil
	}
	return n.El.Ref(mode, path)
}
func (n *PtrStructNode) DestOK(mode int, dest any) bool {
	d := *dest.(**Inner)
	if n.untouched {
		return d == nil
	}
	if d == nil {
		return false
	}
	return n.El.DestOK(mode, d)
}
func (n *PtrStructNode) Holds(mode int, dest any) bool {
	d := *dest.(**Inner)
	if n.Absent(mode) {
		return !n.NotNil
	}
	if d == nil {
		return false
	}
	return n.El.Holds(mode, d)
}

// ---- comparing real results with the reference ------------------------------------------

func rootKey(p string) string {
	if p == "" {
		return "$root"
	}
	return p
}

// sameIssuesMap: the returned map holds exactly the expected issues: for every path the same
// codes in the same order with the node's type, plus $first, and nothing else.
func sameIssuesMap(errs z.ZogIssueMap, want []Iss) bool {
	if len(want) == 0 {
		return errs == nil
	}
	if errs == nil {
		return false
	}
	var paths []string
	for _, w := range want {
		k := rootKey(w.Path)
		seen := false
		for _, p := range paths {
			if p == k {
				seen = true
			}
		}
		if !seen {
			paths = append(paths, k)
		}
	}
	if len(errs) != len(paths)+1 {
		return false
	}
	if len(errs["$first"]) != 1 {
		return false
	}
	for _, p := range paths {
		got := errs[p]
		var exp []Iss
		for _, w := range want {
			if rootKey(w.Path) == p {
				exp = append(exp, w)
			}
		}
		if len(got) != len(exp) {
			return false
		}
		for i := range exp {
			if got[i].Code != exp[i].Code || got[i].Dtype != exp[i].Dtype || got[i].Path != exp[i].Path {
				return false
			}
		}
	}
	return true
}

func sameIssuesList(errs z.ZogIssueList, want []Iss) bool {
	if len(errs) != len(want) {
		return false
	}
	for i := range want {
		if errs[i].Code != want[i].Code || errs[i].Dtype != want[i].Dtype || errs[i].Path != want[i].Path {
			return false
		}
	}
	return true
}

func issString(want []Iss) string {
	s := ""
	for _, w := range want {
		s += rootKey(w.Path) + ":" + w.Code + " "
	}
	return s
}
