package h

import (
	"time"

	z "github.com/Oudwins/zog"
	v "github.com/Oudwins/zog/zzverif"
)

func init() { Registry["C04"] = C04_Run }

// C04 — Required, Optional and Default decide what an absent value means.
//
//  ws/<kind>        for ALL byte strings up to S bytes: the input is treated as absent
//                   (required issue) iff it is empty after trimming Unicode whitespace; the real
//                   strings.TrimSpace / unicode.IsSpace SSA is executed and compared with an
//                   independent byte-wise definition of the Unicode White_Space set
//  table/<kind>/<mode>/d<k>   decision table: absent => Default (then tested) > required issue >
//                   skip (tests not run, destination untouched); present-but-falsy values
//                   (0, false, zero time) are present in Parse and absent in Validate

func C04_Jobs() []string { return append(c04_jobs0(), "json-records") }
func c04_jobs0() []string {
	var out []string
	for _, k := range []string{"int", "str", "bool", "slice", "ptr", "structfield"} {
		out = append(out, "ws/"+k)
	}
	out = append(out, "default-items/parse", "default-items/validate", "struct-input", "absent-items", "empty-composites", "zero-instant", "validate-blank-and-negzero")
	for _, k := range []string{"int", "str", "bool", "float", "time", "slice", "ptr"} {
		for _, m := range []string{"parse", "validate"} {
			for d := 0; d < 4; d++ {
				out = append(out, "table/"+k+"/"+m+"/d"+string(rune('0'+d)))
			}
		}
	}
	return out
}
func C04_Covers() []string {
	return []string{"ws:blank", "ws:nonblank", "ws:unicode-space", "default-applied", "required-issue", "skipped", "present"}
}

func isAsciiSp(c byte) int {
	return v.B2I(c == ' ') | v.B2I(c == '\t') | v.B2I(c == '\n') | v.B2I(c == '\v') | v.B2I(c == '\f') | v.B2I(c == '\r')
}

// refBlank: s consists only of Unicode White_Space runes (UTF-8, byte-wise; n = len(s) concrete).
func refBlank(s string, n int) bool {
	ws := make([]int, n+4)
	ws[n] = 1
	for i := n - 1; i >= 0; i-- {
		c0 := s[i]
		r := isAsciiSp(c0) & ws[i+1]
		if i+1 < n {
			c1 := s[i+1]
			// U+0085 (C2 85), U+00A0 (C2 A0)
			r |= v.B2I(c0 == 0xC2) & (v.B2I(c1 == 0x85) | v.B2I(c1 == 0xA0)) & ws[i+2]
		}
		if i+2 < n {
			c1, c2 := s[i+1], s[i+2]
			t := v.B2I(c0 == 0xE1) & v.B2I(c1 == 0x9A) & v.B2I(c2 == 0x80)                                           // U+1680
			t |= v.B2I(c0 == 0xE2) & v.B2I(c1 == 0x80) & v.B2I(c2 >= 0x80) & v.B2I(c2 <= 0x8A)                       // U+2000..200A
			t |= v.B2I(c0 == 0xE2) & v.B2I(c1 == 0x80) & (v.B2I(c2 == 0xA8) | v.B2I(c2 == 0xA9) | v.B2I(c2 == 0xAF)) // U+2028 2029 202F
			t |= v.B2I(c0 == 0xE2) & v.B2I(c1 == 0x81) & v.B2I(c2 == 0x9F)                                           // U+205F
			t |= v.B2I(c0 == 0xE3) & v.B2I(c1 == 0x80) & v.B2I(c2 == 0x80)                                           // U+3000
			r |= t & ws[i+3]
		}
		ws[i] = r
	}
	return ws[0] == 1
}

func wsMax() int {
	if v.Tier() == 1 {
		return 3
	}
	return 2
}

func firstCode(l z.ZogIssueList) string {
	if len(l) == 0 {
		return ""
	}
	return l[0].Code
}

func c04WS(kind string) {
	s := v.String("s", wsMax())
	n := 0
	for n < len(s) { // fork on the length: all indexing below is concrete
		n++
	}
	nonASCII := 0
	for i := 0; i < n; i++ {
		nonASCII |= v.B2I(s[i] >= 0x80)
	}
	blank := refBlank(s, n)
	var absent bool
	switch kind {
	case "int":
		d := 7
		errs := z.Int().Required().Parse(s, &d)
		absent = firstCode(errs) == "required"
		if absent {
			v.Assert(v.And(len(errs) == 1, d == 7), "C04:absent-required-shape")
		}
	case "str":
		d := "pre"
		errs := z.String().Required().Parse(s, &d)
		absent = firstCode(errs) == "required"
		if !absent {
			v.Assert(v.And(len(errs) == 0, d == s), "C04:present-string-not-stored")
		}
	case "bool":
		d := true
		errs := z.Bool().Required().Parse(s, &d)
		absent = firstCode(errs) == "required"
	case "slice":
		var d []string
		errs := z.Slice(z.String()).Required().Parse(s, &d)
		absent = len(errs["$root"]) == 1 && errs["$root"][0].Code == "required"
		if !absent {
			// a present scalar becomes a one-element slice
			v.Assert(len(d) == 1, "C04:present-scalar-not-boxed")
		}
	case "ptr":
		var d *string
		errs := z.Ptr(z.String()).NotNil().Parse(s, &d)
		absent = len(errs["$root"]) == 1 && errs["$root"][0].Code == "not_nil"
		v.Assert(absent == (d == nil), "C04:pointer-allocation-vs-absence")
	case "structfield":
		var d struct{ A string }
		d.A = "pre"
		errs := z.Struct(z.Schema{"a": z.String().Required()}).Parse(map[string]any{"a": s}, &d)
		absent = len(errs["a"]) == 1 && errs["a"][0].Code == "required"
		if absent {
			v.Assert(d.A == "pre", "C04:absent-destination-written")
		}
	}
	if blank {
		v.Cover("ws:blank")
		if nonASCII == 1 {
			v.Cover("ws:unicode-space")
		}
	} else {
		v.Cover("ws:nonblank")
	}
	v.Assert(absent == blank, "C04:absent-iff-blank-after-trim")
}

// ---- decision table --------------------------------------------------------------------

// input classes of the table
const (
	tNil = iota
	tBlank
	tFalsy   // 0, false, "", zero time, empty slice: present in Parse (except ""), absent in Validate
	tPresent // a non-zero value
	tN
)

func c04Table(kind, mode string, deco int) {
	req, hasDef := deco&dReq != 0, deco&dDef != 0
	cls := v.Choice("class", tN)
	isV := mode == "validate"
	if isV && (cls == tNil || cls == tBlank) {
		v.Assume(false) // Validate has a typed value in place: only falsy / present apply
	}
	called := 0
	var issues []string
	untouched, gotDefault, gotValue := false, false, false
	absent := false
	switch kind {
	case "int":
		val, def := v.Int("val"), v.Int("def")
		v.Assume(val != 0)
		s := z.Int().TestFunc(func(x any, c z.Ctx) bool { called++; return true })
		if req {
			s = s.Required()
		}
		if hasDef {
			s = s.Default(def)
		}
		pre := 5151
		d := pre
		var in any
		switch cls {
		case tNil:
			in, absent = nil, true
		case tBlank:
			in, absent = " \t ", true
		case tFalsy:
			in, absent = 0, isV
			if isV {
				d, pre = 0, 0
			}
		case tPresent:
			in = val
			if isV {
				d, pre = val, val
			}
		}
		var errs z.ZogIssueList
		if isV {
			errs = s.Validate(&d)
		} else {
			errs = s.Parse(in, &d)
		}
		for _, e := range errs {
			issues = append(issues, e.Code)
		}
		untouched, gotDefault = d == pre, d == def
		gotValue = (cls == tPresent && d == val) || (cls == tFalsy && d == 0)
	case "float":
		val, def := v.Float64("val"), v.Float64("def")
		v.Assume(v.And(val != 0, val == val))
		v.Assume(def == def)
		s := z.Float64().TestFunc(func(x any, c z.Ctx) bool { called++; return true })
		if req {
			s = s.Required()
		}
		if hasDef {
			s = s.Default(def)
		}
		pre := 51.5
		d := pre
		var in any
		switch cls {
		case tNil:
			in, absent = nil, true
		case tBlank:
			in, absent = "\n", true
		case tFalsy:
			in, absent = 0.0, isV
			if isV {
				d, pre = 0, 0
			}
		case tPresent:
			in = val
			if isV {
				d, pre = val, val
			}
		}
		var errs z.ZogIssueList
		if isV {
			errs = s.Validate(&d)
		} else {
			errs = s.Parse(in, &d)
		}
		for _, e := range errs {
			issues = append(issues, e.Code)
		}
		untouched, gotDefault = d == pre, d == def
		gotValue = (cls == tPresent && d == val) || (cls == tFalsy && d == 0)
	case "str":
		val, def := visible("val", 2), visible("def", 2)
		v.Assume(len(val) > 0)
		s := z.String().TestFunc(func(x any, c z.Ctx) bool { called++; return true })
		if req {
			s = s.Required()
		}
		if hasDef {
			s = s.Default(def)
		}
		pre := "~pre~"
		d := pre
		var in any
		switch cls {
		case tNil:
			in, absent = nil, true
		case tBlank:
			in, absent = " ", true
		case tFalsy:
			in, absent = "", true // the empty string is absent in both modes
			if isV {
				d, pre = "", ""
			}
		case tPresent:
			in = val
			if isV {
				d, pre = val, val
			}
		}
		var errs z.ZogIssueList
		if isV {
			errs = s.Validate(&d)
		} else {
			errs = s.Parse(in, &d)
		}
		for _, e := range errs {
			issues = append(issues, e.Code)
		}
		untouched, gotDefault = d == pre, d == def
		gotValue = cls == tPresent && d == val
	case "bool":
		def := v.Bool("def")
		s := z.Bool().TestFunc(func(x any, c z.Ctx) bool { called++; return true })
		if req {
			s = s.Required()
		}
		if hasDef {
			s = s.Default(def)
		}
		pre := v.Bool("pre")
		d := pre
		var in any
		switch cls {
		case tNil:
			in, absent = nil, true
		case tBlank:
			in, absent = "  ", true
		case tFalsy:
			in, absent = false, isV
			if isV {
				d, pre = false, false
			}
		case tPresent:
			in = true
			if isV {
				d, pre = true, true
			}
		}
		var errs z.ZogIssueList
		if isV {
			errs = s.Validate(&d)
		} else {
			errs = s.Parse(in, &d)
		}
		for _, e := range errs {
			issues = append(issues, e.Code)
		}
		untouched, gotDefault = d == pre, d == def
		gotValue = (cls == tPresent && d) || (cls == tFalsy && !d)
	case "time":
		sec := v.Int64("sec")
		v.Assume(v.And(sec > -1<<40, sec < 1<<40))
		val := time.Unix(sec, 5).UTC()
		def := time.Unix(1000, 0).UTC()
		s := z.Time().TestFunc(func(x any, c z.Ctx) bool { called++; return true })
		if req {
			s = s.Required()
		}
		if hasDef {
			s = s.Default(def)
		}
		pre := time.Unix(77, 0).UTC()
		d := pre
		var zero time.Time
		var in any
		switch cls {
		case tNil:
			in, absent = nil, true
		case tBlank:
			in, absent = " ", true
		case tFalsy:
			in, absent = zero, isV
			if isV {
				d, pre = zero, zero
			}
		case tPresent:
			in = val
			if isV {
				d, pre = val, val
			}
		}
		var errs z.ZogIssueList
		if isV {
			errs = s.Validate(&d)
		} else {
			errs = s.Parse(in, &d)
		}
		for _, e := range errs {
			issues = append(issues, e.Code)
		}
		untouched, gotDefault = d.Equal(pre), d.Equal(def)
		gotValue = (cls == tPresent && d.Equal(val)) || (cls == tFalsy && d.IsZero())
	case "slice":
		e0 := v.Int("e0")
		def := []int{v.Int("def0"), 3}
		s := z.Slice(z.Int()).TestFunc(func(x any, c z.Ctx) bool { called++; return true })
		if req {
			s = s.Required()
		}
		if hasDef {
			s = s.Default(def)
		}
		d := []int{9, 9, 9}
		var in any
		switch cls {
		case tNil:
			in, absent = nil, true
		case tBlank:
			in, absent = " ", true
		case tFalsy:
			in, absent = []any{}, isV // Parse: an empty list is a present value with no elements
			if isV {
				d = []int{}
			}
		case tPresent:
			in = []any{e0}
			if isV {
				d = []int{e0}
			}
		}
		var errs z.ZogIssueMap
		if isV {
			errs = s.Validate(&d)
		} else {
			errs = s.Parse(in, &d)
		}
		for _, e := range errs["$root"] {
			issues = append(issues, e.Code)
		}
		if len(errs) > 2 {
			issues = append(issues, "extra-keys")
		}
		if isV {
			untouched = len(d) == 0 || (len(d) == 1 && d[0] == e0)
		} else {
			untouched = len(d) == 3 && d[0] == 9
		}
		gotDefault = len(d) == 2 && d[0] == def[0] && d[1] == 3
		gotValue = (cls == tPresent && len(d) == 1 && d[0] == e0) || (cls == tFalsy && len(d) == 0)
	case "ptr":
		// NotNil plays the role of Required; there is no Default on pointers
		val := v.Int("val")
		v.Assume(val != 0)
		if hasDef {
			v.Assume(false)
		}
		inner := z.Int().TestFunc(func(x any, c z.Ctx) bool { called++; return true })
		s := z.Ptr(inner)
		if req {
			s = s.NotNil()
		}
		var d *int
		preset := 4242
		prefilled := !isV && v.Choice("prefilled", 2) == 1
		if prefilled {
			d = &preset // a destination that already holds a pointer
		}
		var in any
		switch cls {
		case tNil:
			in, absent = nil, true
		case tBlank:
			in, absent = " ", true
		case tFalsy:
			// Parse: 0 is present (allocates); Validate: a nil pointer is absent
			in, absent = 0, isV
		case tPresent:
			in = val
			if isV {
				x := val
				d = &x
			}
		}
		var errs z.ZogIssueMap
		if isV {
			errs = s.Validate(&d)
		} else {
			errs = s.Parse(in, &d)
		}
		for _, e := range errs["$root"] {
			issues = append(issues, e.Code)
		}
		untouched = d == nil
		if prefilled {
			untouched = d == &preset && preset == 4242
		}
		gotValue = d != nil && ((cls == tPresent && *d == val) || (cls == tFalsy && *d == 0))
		if prefilled && !absent {
			gotValue = gotValue && d == &preset // filled in place
		}
		if absent {
			if req {
				v.Cover("required-issue")
				v.Assert(len(issues) == 1 && issues[0] == "not_nil", "C04:required-absent-not-reported")
			} else {
				v.Cover("skipped")
				v.Assert(len(issues) == 0, "C04:optional-absent-reported")
			}
			v.Assert(called == 0, "C04:tests-ran-on-absent-value")
			v.Assert(untouched, "C04:absent-destination-written")
		} else {
			v.Cover("present")
			v.Assert(len(issues) == 0, "C04:present-value-reported-absent")
			v.Assert(gotValue, "C04:present-value-not-stored")
			// Parse of the int 0 into Int: present, its test runs once
			v.Assert(called == 1, "C04:tests-did-not-run-on-present-value")
		}
		return
	}
	switch {
	case absent && hasDef:
		v.Cover("default-applied")
		v.Assert(len(issues) == 0, "C04:default-did-not-win-over-required")
		v.Assert(gotDefault, "C04:default-not-stored")
		v.Assert(called == 1, "C04:default-value-not-tested")
	case absent && req:
		v.Cover("required-issue")
		v.Assert(len(issues) == 1 && issues[0] == "required", "C04:required-absent-not-reported")
		v.Assert(called == 0, "C04:tests-ran-on-absent-value")
		v.Assert(untouched, "C04:absent-destination-written")
	case absent:
		v.Cover("skipped")
		v.Assert(len(issues) == 0, "C04:optional-absent-reported")
		v.Assert(called == 0, "C04:tests-ran-on-absent-value")
		v.Assert(untouched, "C04:absent-destination-written")
	default:
		v.Cover("present")
		v.Assert(len(issues) == 0, "C04:present-value-reported-absent")
		v.Assert(gotValue, "C04:present-value-not-stored")
		v.Assert(called == 1, "C04:tests-did-not-run-on-present-value")
	}
}

func c04Extra(kind, mode string) {
	switch kind {
	case "default-items":
		// a default is tested like any other value: also the items of a slice default
		g := v.Int("g")
		d0, d1 := v.Int("d0"), v.Int("d1")
		s := z.Slice(z.Int().GT(g).Required()).Default([]int{d0, d1})
		var d []int
		var errs z.ZogIssueMap
		if mode == "validate" {
			errs = s.Validate(&d)
		} else {
			errs = s.Parse(nil, &d)
		}
		v.Cover("default-applied")
		bad := func(n int) int {
			if mode == "validate" && n == 0 {
				return 1 // a zero item is absent in Validate and the item schema is Required
			}
			return v.B2I(!(n > g))
		}
		v.Assert(len(errs["[0]"]) == bad(d0) && len(errs["[1]"]) == bad(d1), "C04:default-value-not-tested")
		v.Assert(len(d) == 2, "C04:default-not-stored")
	case "absent-items":
		// an absent item (nil, blank string) of a present list meets its item schema like any absent
		// value: Default > required issue > skip; at every position, whatever its neighbours are
		x := v.Int("x")
		dv := v.Int("dv")
		pos := v.Choice("pos", 3)
		var absent any
		if v.Choice("blank", 2) == 1 {
			absent = " "
		}
		in := []any{x, x, x}
		in[pos] = absent
		key := []string{"[0]", "[1]", "[2]"}[pos]
		switch v.Choice("item", 5) {
		case 0:
			var d []int
			errs := z.Slice(z.Int().Required()).Parse(in, &d)
			v.Cover("required-issue")
			v.Assert(len(errs) == 2 && len(errs[key]) == 1 && errs[key][0].Code == "required", "C04:required-absent-not-reported")
			v.Assert(len(d) == 3, "C04:absent-item-dropped")
		case 1:
			var d []int
			errs := z.Slice(z.Int().Default(dv)).Parse(in, &d)
			v.Cover("default-applied")
			v.Assert(errs == nil && len(d) == 3 && d[pos] == dv && d[(pos+1)%3] == x, "C04:default-not-stored")
		case 2:
			var d []*int
			errs := z.Slice(z.Ptr(z.Int()).NotNil()).Parse(in, &d)
			v.Cover("required-issue")
			v.Assert(len(errs) == 2 && len(errs[key]) == 1 && errs[key][0].Code == "not_nil", "C04:required-absent-not-reported")
			v.Assert(len(d) == 3 && d[pos] == nil && d[(pos+1)%3] != nil, "C04:absent-item-dropped")
		case 3:
			var d []struct{ X int }
			rec := map[string]any{"x": x}
			lin := []any{rec, rec, rec}
			lin[pos] = nil
			errs := z.Slice(z.Struct(z.Schema{"x": z.Int().Required()})).Parse(lin, &d)
			v.Cover("required-issue")
			v.Assert(len(errs) == 2 && len(errs[key+".x"]) == 1 && errs[key+".x"][0].Code == "required", "C04:required-absent-not-reported")
		default:
			var d []int
			called := 0
			errs := z.Slice(z.Int().TestFunc(func(val any, c z.Ctx) bool { called++; return false })).Parse(in, &d)
			v.Cover("skipped")
			v.Assert(len(errs[key]) == 0 && called == 2 && len(d) == 3 && d[pos] == 0, "C04:optional-absent-tested")
		}
	case "validate-blank-and-negzero":
		// Validate: absent iff the Go zero value. A non-empty string of white space is NOT "" (present:
		// Required satisfied, tests run, Default leaves it alone) - ALL byte strings <=2; negative zero
		// IS equal to the float zero value (absent), as every other zero
		s := v.String("s", 2)
		v.Assume(len(s) > 0)
		called := 0
		rec := func(val any, c z.Ctx) bool { called++; return true }
		d := s
		e1 := z.String().Required().Default("dflt").TestFunc(rec).Validate(&d)
		v.Cover("present")
		v.Assert(len(e1) == 0 && called == 1 && d == s, "C04:present-value-reported-absent")
		var ds struct {
			A string
			L []string
		}
		ds.A, ds.L = s, []string{s}
		e2 := z.Struct(z.Schema{"a": z.String().Required().TestFunc(rec), "l": z.Slice(z.String().Required().Default("dflt").TestFunc(rec))}).Validate(&ds)
		v.Assert(e2 == nil && called == 3 && ds.A == s && ds.L[0] == s, "C04:present-value-reported-absent")
		f := v.Float64("f")
		v.Assume(f == 0) // +0 or -0
		fcalled := 0
		e3 := z.Float64().Required().TestFunc(func(val any, c z.Ctx) bool { fcalled++; return true }).Validate(&f)
		v.Cover("required-issue")
		v.Assert(len(e3) == 1 && e3[0].Code == "required" && fcalled == 0, "C04:required-absent-not-reported")
		g := v.Float64("g")
		v.Assume(g == 0)
		e4 := z.Float64().Default(2.5).Validate(&g)
		v.Cover("default-applied")
		v.Assert(len(e4) == 0 && g == 2.5, "C04:default-not-stored")
		f32 := float32(v.Float64("h"))
		v.Assume(f32 == 0)
		e5 := z.Float32().TestFunc(func(val any, c z.Ctx) bool { fcalled++; return false }).Validate(&f32)
		v.Cover("skipped")
		v.Assert(len(e5) == 0 && fcalled == 0, "C04:optional-absent-tested")
	case "zero-instant":
		// Validate: absent iff the Go zero value. The instant 0001-01-01T00:00:00Z carried in a
		// non-nil location is NOT time.Time{}: it is present (Required satisfied, tests run, Default
		// and nothing else left alone), also as struct field, slice item and behind a pointer
		zone := time.FixedZone("CET", 3600)
		odd := time.Time{}.In(zone)
		def := time.Unix(5000, 0).UTC()
		called := 0
		rec := func(val any, c z.Ctx) bool { called++; return true }
		d := odd
		e1 := z.Time().Required().Default(def).TestFunc(rec).Validate(&d)
		v.Cover("present")
		v.Assert(len(e1) == 0 && called == 1 && d == odd, "C04:present-value-reported-absent")
		var ds struct {
			T time.Time
			L []time.Time
			P *time.Time
		}
		po := odd
		ds.T, ds.L, ds.P = odd, []time.Time{odd}, &po
		em := z.Struct(z.Schema{"t": z.Time().Required().TestFunc(rec), "l": z.Slice(z.Time().Required().Default(def).TestFunc(rec)), "p": z.Ptr(z.Time().Required().TestFunc(rec))}).Validate(&ds)
		v.Assert(em == nil && called == 4 && ds.T == odd && ds.L[0] == odd && *ds.P == odd, "C04:present-value-reported-absent")
		// and the true zero value is absent
		var zero time.Time
		e2 := z.Time().Required().Validate(&zero)
		v.Cover("required-issue")
		v.Assert(len(e2) == 1 && e2[0].Code == "required", "C04:required-absent-not-reported")
	case "empty-composites":
		// an empty record / an empty list is a present value (only nil and blank strings are absent
		// in Parse): behind a pointer the inner schema runs and the pointer is allocated
		type In struct{ Name string }
		var d struct {
			Inner *In
			Tags  *[]string
			Plain []string
		}
		s := z.Struct(z.Schema{
			"inner": z.Ptr(z.Struct(z.Schema{"name": z.String().Required()})).NotNil(),
			"tags":  z.Ptr(z.Slice(z.String()).Min(1)).NotNil(),
			"plain": z.Slice(z.String()).Required(),
		})
		var empty any = []any{}
		if v.Choice("typed", 2) == 1 {
			empty = []string{}
		}
		errs := s.Parse(map[string]any{"inner": map[string]any{}, "tags": empty, "plain": empty}, &d)
		v.Cover("present")
		v.Assert(len(errs["inner"]) == 0 && len(errs["inner.name"]) == 1 && errs["inner.name"][0].Code == "required", "C04:present-value-reported-absent")
		v.Assert(len(errs["tags"]) == 1 && errs["tags"][0].Code == "min", "C04:present-value-reported-absent")
		v.Assert(len(errs["plain"]) == 0, "C04:present-value-reported-absent")
		v.Assert(d.Inner != nil && d.Tags != nil, "C04:pointer-allocation-vs-absence")
		var top *[]string
		e2 := z.Ptr(z.Slice(z.String())).NotNil().Parse(empty, &top)
		v.Assert(e2 == nil && top != nil && len(*top) == 0, "C04:present-value-reported-absent")
	case "struct-input":
		// present-but-falsy values of a Go struct used as input are present in Parse
		type In struct {
			A int
			B bool
			F float64
			S string
			P *int
		}
		x := v.Int("x")
		called := 0
		var d struct {
			A int
			B bool
			F float64
			S string
			P *int
		}
		d.A, d.B, d.F = 5, true, 5
		rec := func(val any, c z.Ctx) bool { called++; return true }
		// (the fields of an input struct are looked up by their Go names, so the schema keys are
		// the field names)
		errs := z.Struct(z.Schema{"A": z.Int().Required().Default(9).TestFunc(rec), "B": z.Bool().Required().TestFunc(rec), "F": z.Float64().Required().TestFunc(rec),
			"S": z.String().Required()}).Parse(In{A: 0, B: false, F: 0, S: "", P: nil}, &d)
		v.Cover("present")
		v.Cover("required-issue")
		v.Assert(len(errs["A"]) == 0 && len(errs["B"]) == 0 && len(errs["F"]) == 0, "C04:present-value-reported-absent")
		v.Assert(d.A == 0 && !d.B && d.F == 0 && called == 3, "C04:present-value-not-stored")
		v.Assert(len(errs["S"]) == 1 && errs["S"][0].Code == "required", "C04:required-absent-not-reported")
		var d2 struct{ A int }
		e2 := z.Struct(z.Schema{"A": z.Int().Required()}).Parse(&In{A: x}, &d2)
		v.Assert(e2 == nil && d2.A == x, "C04:present-value-not-stored")
	}
}

func C04_Run(job string) {
	if job == "json-records" {
		jrCheck("C04")
		return
	}
	a, b, c, d := split3(job)
	if a == "default-items" || a == "struct-input" || a == "absent-items" || a == "empty-composites" || a == "zero-instant" || a == "validate-blank-and-negzero" {
		c04Extra(a, b)
		v.Cover("ws:blank")
		return
	}
	if a == "ws" {
		c04WS(b)
		return
	}
	c04Table(b, c, jobDeco(d))
}
