package h

import (
	"errors"
	"fmt"
	"strings"

	z "github.com/Oudwins/zog"
	"github.com/Oudwins/zog/conf"
	p "github.com/Oudwins/zog/internals"
	"github.com/Oudwins/zog/parsers/zjson"
	"github.com/Oudwins/zog/zhttp"
	v "github.com/Oudwins/zog/zzverif"
)

func init() { Registry["C10"] = C10_Run }

// C10 — the issue map is well-formed and addresses every issue by its path.
// A fixed three-level destination with every struct-tag combination at every depth; all
// leaves are Int().GT(100).Required(); which leaves fail is symbolic (map, Validate) or an
// enumerated choice (JSON documents have to be concrete for the json decoder).

type c10L2 struct {
	V int `json:"jv" zog:"zv"`
	W int `zog:"zw"`
	X int `json:"jx"`
	Y int
}
type c10L1 struct {
	In c10L2   `json:"jin" zog:"zin"`
	L  []c10L2 `json:"jl"`
	P  *c10L2  `zog:"zp"`
}
type c10Top struct {
	A c10L1 `json:"ja"`
	B int   `json:"jb" zog:"zb"`
}

func c10Leaf() *z.NumberSchema[int] { return z.Int().GT(100).Required() }

func c10L2Schema() *z.StructSchema {
	return z.Struct(z.Schema{"v": c10Leaf(), "w": c10Leaf(), "x": c10Leaf(), "y": c10Leaf()})
}

func c10Schema() *z.StructSchema {
	return z.Struct(z.Schema{
		"a": z.Struct(z.Schema{"in": c10L2Schema(), "l": z.Slice(c10L2Schema()), "p": z.Ptr(c10L2Schema())}),
		"b": c10Leaf(),
	})
}

// key a field gets under a front end: source tag, else zog tag, else schema key
func c10Key(front, jsonTag, zogTag, key string) string {
	if front == "json" && jsonTag != "" {
		return jsonTag
	}
	if zogTag != "" {
		return zogTag
	}
	return key
}

type c10leaf struct {
	name string // identifies the leaf: b, in.v, l0.x, p.w ...
	path string // expected issue path under the front end
}

func c10Leaves(front string) []c10leaf {
	a := c10Key(front, "ja", "", "a")
	l2 := func(prefix string) []c10leaf {
		return []c10leaf{
			{"v", prefix + "." + c10Key(front, "jv", "zv", "v")},
			{"w", prefix + "." + c10Key(front, "", "zw", "w")},
			{"x", prefix + "." + c10Key(front, "jx", "", "x")},
			{"y", prefix + "." + c10Key(front, "", "", "y")},
		}
	}
	var out []c10leaf
	out = append(out, c10leaf{"b", c10Key(front, "jb", "zb", "b")})
	for _, l := range l2(a + "." + c10Key(front, "jin", "zin", "in")) {
		out = append(out, c10leaf{"in." + l.name, l.path})
	}
	for i := 0; i < 2; i++ {
		for _, l := range l2(fmt.Sprintf("%s.%s[%d]", a, c10Key(front, "jl", "", "l"), i)) {
			out = append(out, c10leaf{fmt.Sprintf("l%d.%s", i, l.name), l.path})
		}
	}
	for _, l := range l2(a + "." + c10Key(front, "", "zp", "p")) {
		out = append(out, c10leaf{"p." + l.name, l.path})
	}
	return out
}

func C10_Jobs() []string { return append(c10_jobs0(), "json-records") }
func c10_jobs0() []string {
	return []string{"paths/map", "paths/validate", "paths/json", "missing/map", "missing/json", "flat/json", "flat/zhttp-json", "cross-front-end", "issuepath-stale", "long-slice-paths", "sanitize-root-first", "empty-record/map", "empty-record/nested", "empty-record/json", "issuepath", "sanitize", "first-and-unique/map", "first-and-unique/validate", "root-key", "deep-slices/parse", "deep-slices/validate", "issuepath-on-copy", "empty-tag-paths/parse", "empty-tag-paths/validate", "source-tag-keys", "many-issues-per-path", "path-lengths/parse", "path-lengths/validate"}
}
func C10_Covers() []string { return []string{"some-issues"} }

// wellFormed: every key holds issues whose Path is the key; every issue object occurs once
// outside $first; $first holds exactly one issue that also occurs under its path.
func c10WellFormed(errs z.ZogIssueMap) {
	if errs == nil {
		return
	}
	var all []*z.ZogIssue
	for k, l := range errs {
		if k == "$first" {
			continue
		}
		v.Assert(len(l) > 0, "C10:empty-key")
		for _, e := range l {
			want := k
			if k == "$root" {
				want = ""
			}
			v.Assert(e.Path == want, "C10:issue-under-wrong-key")
			for _, o := range all {
				v.Assert(o != e, "C10:issue-listed-twice")
			}
			all = append(all, e)
		}
	}
	f := errs["$first"]
	v.Assert(len(f) == 1, "C10:first-not-exactly-one")
	found := false
	for _, o := range all {
		if o == f[0] {
			found = true
		}
	}
	v.Assert(found, "C10:first-not-among-the-issues")
}

func c10Check(errs z.ZogIssueMap, leaves []c10leaf, fails map[string]string) {
	c10WellFormed(errs)
	n := 0
	for _, l := range leaves {
		code, bad := fails[l.name]
		if !bad {
			v.Assert(len(errs[l.path]) == 0, "C10:unexpected-issue-at-path")
			continue
		}
		n++
		got := errs[l.path]
		v.Assert(len(got) == 1 && got[0].Code == code, "C10:issue-not-at-documented-path")
	}
	if n == 0 {
		v.Assert(errs == nil, "C10:issues-at-undocumented-paths")
		return
	}
	v.Cover("some-issues")
	keys := map[string]bool{}
	for _, l := range leaves {
		if _, bad := fails[l.name]; bad {
			keys[l.path] = true
		}
	}
	v.Assert(len(errs) == len(keys)+1, "C10:issues-at-undocumented-paths")
}

func C10_Run(job string) {
	if job == "json-records" {
		jrCheck("C10")
		return
	}
	a, b, _, _ := split3(job)
	v.MapOrderChoice(false) // visit order is C09's subject
	switch a {
	case "paths", "missing":
		front := b
		leaves := c10Leaves(front)
		vals := map[string]int{}
		fails := map[string]string{}
		missing := ""
		if a == "missing" {
			missing = leaves[v.Choice("missing-leaf", len(leaves))].name
		}
		for _, l := range leaves {
			switch {
			case l.name == missing:
				fails[l.name] = "required"
			case !(l.name == "b" || l.name == "in.v" || l.name == "in.x" || l.name == "l0.v" || l.name == "l1.y" || l.name == "p.w" || l.name == "in.w" ||
				(v.Tier() == 1 && (l.name == "in.y" || l.name == "l0.w" || l.name == "l1.x" || l.name == "p.v"))):
				vals[l.name] = 500 // only seven leaves vary; the others pass
			case front == "json":
				// concrete documents
				if v.Choice("fail:"+l.name, 2) == 1 {
					vals[l.name] = 5
					fails[l.name] = "gt"
				} else {
					vals[l.name] = 500
				}
			default:
				x := v.Int(l.name)
				v.Assume(x != 0) // Validate: zero would be absent
				vals[l.name] = x
				if !(x > 100) {
					fails[l.name] = "gt"
				}
			}
		}
		l2map := func(prefix string) map[string]any {
			m := map[string]any{}
			for _, f := range []struct{ n, j, zt string }{{"v", "jv", "zv"}, {"w", "", "zw"}, {"x", "jx", ""}, {"y", "", ""}} {
				if prefix+f.n == missing {
					continue
				}
				m[c10Key(front, f.j, f.zt, f.n)] = vals[prefix+f.n]
			}
			return m
		}
		var d c10Top
		var errs z.ZogIssueMap
		switch front {
		case "validate":
			get := func(p string) c10L2 {
				return c10L2{V: vals[p+"v"], W: vals[p+"w"], X: vals[p+"x"], Y: vals[p+"y"]}
			}
			pp := get("p.")
			d = c10Top{A: c10L1{In: get("in."), L: []c10L2{get("l0."), get("l1.")}, P: &pp}, B: vals["b"]}
			errs = c10Schema().Validate(&d)
		default:
			am := map[string]any{
				c10Key(front, "jin", "zin", "in"): l2map("in."),
				c10Key(front, "jl", "", "l"):      []any{l2map("l0."), l2map("l1.")},
				c10Key(front, "", "zp", "p"):      l2map("p."),
			}
			top := map[string]any{c10Key(front, "ja", "", "a"): am}
			if missing != "b" {
				top[c10Key(front, "jb", "zb", "b")] = vals["b"]
			}
			if front == "json" {
				errs = c10Schema().Parse(zjson.Decode(strings.NewReader(toJSON(top))), &d)
			} else {
				errs = c10Schema().Parse(top, &d)
			}
		}
		c10Check(errs, leaves, fails)
	case "flat":
		// every tag combination at the top level of a JSON document (one level only)
		vals := map[string]int{}
		fails := map[string]string{}
		names := []string{"v", "w", "x", "y"}
		missing := ""
		if k := v.Choice("missing", 5); k < 4 {
			missing = names[k]
		}
		doc := map[string]any{}
		var leaves []c10leaf
		for _, f := range []struct{ n, j, zt string }{{"v", "jv", "zv"}, {"w", "", "zw"}, {"x", "jx", ""}, {"y", "", ""}} {
			key := c10Key("json", f.j, f.zt, f.n)
			leaves = append(leaves, c10leaf{f.n, key})
			switch {
			case f.n == missing:
				fails[f.n] = "required"
				continue
			case v.Choice("fail:"+f.n, 2) == 1:
				vals[f.n], fails[f.n] = 5, "gt"
			default:
				vals[f.n] = 500
			}
			doc[key] = vals[f.n]
		}
		if len(doc) == 0 {
			doc["unrelated"] = 1
		}
		var d c10L2
		var errs z.ZogIssueMap
		if b == "json" {
			errs = c10L2Schema().Parse(zjson.Decode(strings.NewReader(toJSON(doc))), &d)
		} else {
			errs = c10L2Schema().Parse(zhttp.Request(c11Request("POST", "application/json", toJSON(doc), "")), &d)
		}
		c10Check(errs, leaves, fails)
		for _, f := range names {
			if _, bad := fails[f]; !bad {
				got := map[string]int{"v": d.V, "w": d.W, "x": d.X, "y": d.Y}[f]
				v.Assert(got == vals[f], "C10:value-not-read-from-documented-key")
			}
		}
	case "cross-front-end":
		// the same tagged destination parsed through different front ends in one process, in
		// every order: each front end must use its own tag
		order := v.Choice("order", 6)
		fronts := [][]string{{"json", "map", "validate"}, {"json", "validate", "map"}, {"map", "json", "validate"}, {"map", "validate", "json"}, {"validate", "json", "map"}, {"validate", "map", "json"}}[order]
		for _, front := range fronts {
			var d c10L2
			var errs z.ZogIssueMap
			doc := map[string]any{}
			var leaves []c10leaf
			for _, f := range []struct{ n, j, zt string }{{"v", "jv", "zv"}, {"w", "", "zw"}, {"x", "jx", ""}, {"y", "", ""}} {
				fr := front
				if front == "validate" {
					fr = "map"
				}
				key := c10Key(fr, f.j, f.zt, f.n)
				leaves = append(leaves, c10leaf{f.n, key})
				doc[key] = 5
			}
			switch front {
			case "json":
				errs = c10L2Schema().Parse(zjson.Decode(strings.NewReader(toJSON(doc))), &d)
			case "map":
				errs = c10L2Schema().Parse(doc, &d)
			case "validate":
				d = c10L2{5, 5, 5, 5}
				errs = c10L2Schema().Validate(&d)
			}
			c10Check(errs, leaves, map[string]string{"v": "gt", "w": "gt", "x": "gt", "y": "gt"})
		}
	case "issuepath-stale":
		// an IssuePath given to one test must not move issues that are not made by that test
		boom := errors.New("boom")
		v.MapOrderChoice(true)
		var d struct {
			A string
			C string
			L []string
		}
		k := v.Choice("kind", 3)
		var errs z.ZogIssueMap
		switch k {
		case 0: // post-transform error on a sibling field
			errs = z.Struct(z.Schema{"a": z.String().Min(1, z.IssuePath("alias")), "c": z.String().PostTransform(func(p any, c z.Ctx) error { return boom })}).
				Parse(map[string]any{"a": "ok", "c": "x"}, &d)
			c10WellFormed(errs)
			v.Assert(len(errs["c"]) == 1 && len(errs["alias"]) == 0, "C10:issuepath-moved-an-unrelated-issue")
		case 1: // preprocess error in a slice element after an element whose IssuePath test passed
			el := z.Preprocess(func(s string, c z.Ctx) (string, error) {
				if s == "bad" {
					return "", boom
				}
				return s, nil
			}, z.String().Min(2, z.IssuePath("alias")))
			errs = z.Struct(z.Schema{"l": z.Slice(el)}).Parse(map[string]any{"l": []any{"good", "bad"}}, &d)
			c10WellFormed(errs)
			v.Assert(len(errs["l[1]"]) == 1 && len(errs["alias"]) == 0, "C10:issuepath-moved-an-unrelated-issue")
		case 2: // same in Validate
			d.A, d.C = "ok", "x"
			errs = z.Struct(z.Schema{"a": z.String().Min(1, z.IssuePath("alias")), "c": z.String().PostTransform(func(p any, c z.Ctx) error { return boom })}).Validate(&d)
			c10WellFormed(errs)
			v.Assert(len(errs["c"]) == 1 && len(errs["alias"]) == 0, "C10:issuepath-moved-an-unrelated-issue")
		}
		v.Cover("some-issues")
	case "empty-record":
		// an empty record: every required leaf is reported under its documented key
		var errs z.ZogIssueMap
		front := "map"
		switch b {
		case "map":
			var d c10L2
			errs = c10L2Schema().Parse(map[string]any{}, &d)
		case "json":
			front = "json"
			var d c10L2
			errs = c10L2Schema().Parse(zjson.Decode(strings.NewReader("{}")), &d)
		case "nested":
			var d struct {
				In c10L2 `zog:"zin"`
			}
			errs = z.Struct(z.Schema{"in": c10L2Schema()}).Parse(map[string]any{"zin": map[string]any{}}, &d)
		}
		c10WellFormed(errs)
		prefix := ""
		if b == "nested" {
			prefix = "zin."
		}
		n := 0
		for _, f := range []struct{ n, j, zt string }{{"v", "jv", "zv"}, {"w", "", "zw"}, {"x", "jx", ""}, {"y", "", ""}} {
			key := prefix + c10Key(front, f.j, f.zt, f.n)
			v.Assert(len(errs[key]) == 1 && errs[key][0].Code == "required", "C10:issue-not-at-documented-path")
			n++
		}
		v.Assert(len(errs) == n+1, "C10:issues-at-undocumented-paths")
		v.Cover("some-issues")
	case "long-slice-paths":
		// positions above 9 are written in decimal
		n := 13 + 10*v.Choice("longer", 2)
		bad := v.Choice("bad", n)
		in := make([]any, n)
		for i := range in {
			in[i] = 500
		}
		in[bad] = 5
		var d struct{ L []int }
		errs := z.Struct(z.Schema{"l": z.Slice(z.Int().GT(100))}).Parse(map[string]any{"l": in}, &d)
		c10WellFormed(errs)
		want := fmt.Sprintf("l[%d]", bad)
		v.Assert(len(errs) == 2 && len(errs[want]) == 1 && errs[want][0].Path == want, "C10:issue-not-at-documented-path")
		var top []int
		errs = z.Slice(z.Int().GT(100)).Parse(in, &top)
		want = fmt.Sprintf("[%d]", bad)
		v.Assert(len(errs) == 2 && len(errs[want]) == 1, "C10:issue-not-at-documented-path")
		errs = z.Slice(z.Int().GT(100)).Validate(&top)
		v.Assert(len(errs) == 2 && len(errs[want]) == 1, "C10:issue-not-at-documented-path")
		v.Cover("some-issues")
	case "deep-slices":
		mode := b
		// slices nested in structs nested in slices: every failing leaf is filed under its own
		// a[i].b[j].c.d[k].e, starting from fresh pools (a path builder that still has to grow)
		type E struct{ E int }
		type C struct{ D []E }
		type B struct{ C C }
		type A struct{ B []B }
		type T struct{ A []A }
		sc := z.Struct(z.Schema{"a": z.Slice(z.Struct(z.Schema{"b": z.Slice(z.Struct(z.Schema{"c": z.Struct(z.Schema{"d": z.Slice(z.Struct(z.Schema{"e": z.Int().GT(100)}))})}))}))})
		var vals [2][2][2]int
		for i := 0; i < 2; i++ {
			for j := 0; j < 2; j++ {
				for k := 0; k < 2; k++ {
					vals[i][j][k] = 500
					if v.Bool(fmt.Sprintf("bad%d%d%d", i, j, k)) {
						vals[i][j][k] = 5
					}
				}
			}
		}
		p.ClearPools()
		var d T
		var errs z.ZogIssueMap
		if mode == "validate" {
			for i := 0; i < 2; i++ {
				var a A
				for j := 0; j < 2; j++ {
					a.B = append(a.B, B{C: C{D: []E{{vals[i][j][0]}, {vals[i][j][1]}}}})
				}
				d.A = append(d.A, a)
			}
			errs = sc.Validate(&d)
		} else {
			var la []any
			for i := 0; i < 2; i++ {
				var lb []any
				for j := 0; j < 2; j++ {
					lb = append(lb, map[string]any{"c": map[string]any{"d": []any{map[string]any{"e": vals[i][j][0]}, map[string]any{"e": vals[i][j][1]}}}})
				}
				la = append(la, map[string]any{"b": lb})
			}
			errs = sc.Parse(map[string]any{"a": la}, &d)
		}
		c10WellFormed(errs)
		nbad := 0
		for i := 0; i < 2; i++ {
			for j := 0; j < 2; j++ {
				for k := 0; k < 2; k++ {
					key := fmt.Sprintf("a[%d].b[%d].c.d[%d].e", i, j, k)
					if vals[i][j][k] == 5 {
						nbad++
						v.Assert(len(errs[key]) == 1 && errs[key][0].Path == key, "C10:issue-not-at-documented-path")
					} else {
						v.Assert(len(errs[key]) == 0, "C10:issue-not-at-documented-path")
					}
				}
			}
		}
		v.Assert((nbad == 0 && errs == nil) || len(errs) == nbad+1, "C10:issue-not-at-documented-path")
		v.Cover("some-issues")
	case "empty-tag-paths":
		// a field tagged with the empty string contributes no path segment; its siblings and the
		// fields below it keep theirs, whatever the order of visits, and later calls are unaffected
		type leaf struct {
			Kind string `zog:""`
			City string
		}
		type top struct {
			Kind string `zog:""`
			Addr leaf
			L    []leaf
		}
		v.MapOrderChoice(true)
		lf := func() *z.StructSchema {
			return z.Struct(z.Schema{"kind": z.String().Min(9), "city": z.String().Min(9)})
		}
		sc := z.Struct(z.Schema{"kind": z.String(), "addr": lf(), "l": z.Slice(lf())})
		var d top
		var errs z.ZogIssueMap
		if b == "validate" {
			d = top{Kind: "k", Addr: leaf{"k", "c"}, L: []leaf{{"k", "c"}}}
			errs = sc.Validate(&d)
		} else {
			rec := map[string]any{"": "k", "city": "c"}
			errs = sc.Parse(map[string]any{"": "k", "addr": rec, "l": []any{rec}}, &d)
		}
		v.MapOrderChoice(false)
		c10WellFormed(errs)
		v.Assert(len(errs) == 5 && len(errs["addr.city"]) == 1 && len(errs["addr"]) == 1 && len(errs["l[0].city"]) == 1 && len(errs["l[0]"]) == 1, "C10:issue-not-at-documented-path")
		var d2 struct{ Name string }
		e2 := z.Struct(z.Schema{"name": z.String().Min(9)}).Parse(map[string]any{"name": "n"}, &d2)
		v.Assert(len(e2) == 2 && len(e2["name"]) == 1, "C10:issue-not-at-documented-path")
		v.Cover("some-issues")
	case "source-tag-keys":
		// form / query: the key of a field is its source tag whatever parameters the request
		// happens to carry (a parameter named like the zog tag or the schema key is another parameter)
		type D struct {
			Email string `query:"q_email" form:"f_email" zog:"email"`
			Age   int    `query:"q_age" form:"f_age"`
		}
		front := []string{"query", "form"}[v.Choice("front", 2)]
		qs := []string{"email=nope&age=3", "q_email=nope&f_email=nope&email=x", "Email=x&Age=1", ""}[v.Choice("request", 4)]
		req := c11Request("GET", "", "", qs)
		if front == "form" {
			req = c11Request("POST", "application/x-www-form-urlencoded", qs, "")
		}
		var d D
		errs := z.Struct(z.Schema{"email": z.String().Min(9).Required(), "age": z.Int().Required()}).Parse(zhttp.Request(req), &d)
		c10WellFormed(errs)
		ek, ak := "q_email", "q_age"
		if front == "form" {
			ek, ak = "f_email", "f_age"
		}
		v.Assert(len(errs) == 3 && len(errs[ek]) == 1 && len(errs[ak]) == 1 && errs[ak][0].Code == "required", "C10:issue-not-at-documented-path")
		v.Cover("some-issues")
	case "many-issues-per-path":
		// three, four and five issues under one key next to other failing keys: every issue sits
		// under the key equal to its path, once
		v.MapOrderChoice(true)
		var d struct {
			A, B string
			L    []string
		}
		many := z.String().Min(8).ContainsDigit().ContainsUpper().ContainsSpecial().HasPrefix("Z")
		errs := z.Struct(z.Schema{"a": many, "b": z.String().Min(8).ContainsDigit().ContainsUpper(), "l": z.Slice(many)}).Parse(map[string]any{"a": "abc", "b": "abc", "l": []any{"abc", "abc"}}, &d)
		v.MapOrderChoice(false)
		c10WellFormed(errs)
		v.Assert(len(errs) == 5 && len(errs["a"]) == 5 && len(errs["b"]) == 3 && len(errs["l[0]"]) == 5 && len(errs["l[1]"]) == 5, "C10:issue-not-at-documented-path")
		v.Cover("some-issues")
	case "path-lengths":
		// keys of every length around the sizes a path buffer might have (joined paths of 24..40 bytes)
		type leaf struct {
			K1  int `zog:"k"`
			K2  int `zog:"k2"`
			K3  int `zog:"k_3"`
			K4  int `zog:"k__4"`
			K5  int `zog:"k___5"`
			K6  int `zog:"k____6"`
			K7  int `zog:"k_____7"`
			K8  int `zog:"k______8"`
			K9  int `zog:"k_______9"`
			K10 int `zog:"k_______10"`
			K11 int `zog:"k________11"`
			K12 int `zog:"k_________12"`
			K13 int `zog:"k__________13"`
			K14 int `zog:"k___________14"`
			K15 int `zog:"k____________15"`
			K16 int `zog:"k_____________16"`
			K17 int `zog:"k______________17"`
		}
		type mid struct {
			Recipient leaf   `zog:"recipient"`
			List      []leaf `zog:"li"`
		}
		type top struct {
			Billing mid `zog:"billing_addr"`
		}
		sch := z.Schema{}
		names := []string{"k1", "k2", "k3", "k4", "k5", "k6", "k7", "k8", "k9", "k10", "k11", "k12", "k13", "k14", "k15", "k16", "k17"}
		tags := []string{"k", "k2", "k_3", "k__4", "k___5", "k____6", "k_____7", "k______8", "k_______9", "k_______10", "k________11", "k_________12", "k__________13", "k___________14", "k____________15", "k_____________16", "k______________17"}
		for _, n := range names {
			sch[n] = z.Int().GT(100).Required()
		}
		sc := z.Struct(z.Schema{"billing": z.Struct(z.Schema{"recipient": z.Struct(sch), "list": z.Slice(z.Struct(sch))})})
		var d top
		var errs z.ZogIssueMap
		if b == "validate" {
			d.Billing.List = []leaf{{}}
			errs = sc.Validate(&d)
		} else {
			errs = sc.Parse(map[string]any{"billing_addr": map[string]any{"recipient": map[string]any{}, "li": []any{map[string]any{}}}}, &d)
		}
		c10WellFormed(errs)
		v.Assert(len(errs) == 2*len(tags)+1, "C10:issue-not-at-documented-path")
		for _, tg := range tags {
			k1, k2 := "billing_addr.recipient."+tg, "billing_addr.li[0]."+tg
			v.Assert(len(errs[k1]) == 1 && errs[k1][0].Path == k1 && len(errs[k2]) == 1 && errs[k2][0].Path == k2, "C10:issue-not-at-documented-path")
		}
		v.Cover("some-issues")
	case "issuepath-on-copy":
		// a reusable test specialised on a copy: the options of the copy that runs decide the path
		base := z.TestFunc("mismatch", func(val any, c z.Ctx) bool { return false })
		t1 := base
		z.IssuePath("confirm")(&t1)
		t2 := base
		t2.IssuePath = "other.place"
		var d struct{ Password, Again, Plain string }
		errs := z.Struct(z.Schema{"password": z.String().Test(t1), "again": z.String().Test(t2), "plain": z.String().Test(base)}).
			Parse(map[string]any{"password": "a", "again": "b", "plain": "c"}, &d)
		c10WellFormed(errs)
		v.Assert(len(errs) == 4 && len(errs["confirm"]) == 1 && len(errs["other.place"]) == 1 && len(errs["plain"]) == 1, "C10:issuepath-override")
		d.Password, d.Again, d.Plain = "a", "b", "c"
		errs = z.Struct(z.Schema{"password": z.String().Test(t1), "again": z.String().Test(t2), "plain": z.String().Test(base)}).Validate(&d)
		c10WellFormed(errs)
		v.Assert(len(errs["confirm"]) == 1 && len(errs["plain"]) == 1 && len(errs["password"]) == 0, "C10:issuepath-override")
		v.Cover("some-issues")
	case "sanitize-root-first":
		// SanitizeMap keeps every key, also when the first issue is recorded at the root
		k := v.Choice("kind", 3)
		var errs z.ZogIssueMap
		var d struct{ A int }
		var sl []int
		switch k {
		case 0:
			errs = z.Struct(z.Schema{"a": z.Int()}).TestFunc(func(p any, c z.Ctx) bool { return false }, z.IssueCode("st")).Parse(map[string]any{"a": 1}, &d)
		case 1:
			errs = z.Slice(z.Int()).Min(3).Parse([]any{1}, &sl)
		case 2:
			errs = z.Struct(z.Schema{"a": z.Int()}).Parse(zjson.Decode(strings.NewReader("[")), &d)
		}
		c10WellFormed(errs)
		san := z.Issues.SanitizeMap(errs)
		v.Assert(len(san) == len(errs) && len(san["$first"]) == 1 && len(san["$root"]) == 1 && san["$first"][0] == errs["$first"][0].Message, "C10:sanitize-keys")
		san2 := z.Issues.SanitizeMapAndCollect(errs)
		v.Assert(len(san2) == len(san) && len(san2["$first"]) == 1, "C10:sanitize-keys")
		v.Cover("some-issues")
	case "issuepath":
		x := v.Int("x")
		var d struct {
			A int
			N struct{ X int }
		}
		s := z.Struct(z.Schema{"a": z.Int().GT(100, z.IssuePath("custom.path")).LT(1000), "n": z.Struct(z.Schema{"x": z.Int().Required(z.IssuePath("elsewhere"))})})
		errs := s.Parse(map[string]any{"a": x}, &d)
		c10WellFormed(errs)
		v.Assert(len(errs["elsewhere"]) == 1 && errs["elsewhere"][0].Code == "required", "C10:issuepath-override")
		if !(x > 100) {
			v.Assert(len(errs["custom.path"]) == 1 && len(errs["a"]) == 0, "C10:issuepath-override")
		} else if !(x < 1000) {
			v.Assert(len(errs["a"]) == 1 && len(errs["custom.path"]) == 0, "C10:issuepath-override")
		}
		v.Cover("some-issues")
	case "sanitize":
		x, y := v.Int("x"), v.Int("y")
		var d struct {
			A int
			L []int
		}
		errs := z.Struct(z.Schema{"a": z.Int().GT(100).LT(50, z.Message("custom")), "l": z.Slice(z.Int().GT(100)).Min(5)}).Parse(map[string]any{"a": x, "l": []any{y, "zz"}}, &d)
		san := z.Issues.SanitizeMap(errs)
		v.Assert(len(san) == len(errs), "C10:sanitize-keys")
		seen := 0
		for _, k := range []string{"$first", "a", "l", "l[0]", "l[1]"} { // fixed order: the trace is compared with the native one
			l, present := errs[k]
			if !present {
				continue
			}
			seen++
			ms, ok := san[k]
			v.Assert(ok && len(ms) == len(l), "C10:sanitize-keys")
			for i := range l {
				v.Assert(ms[i] == l[i].Message, "C10:sanitize-messages")
			}
			sl := z.Issues.SanitizeList(l)
			v.Assert(len(sl) == len(l), "C10:sanitize-list")
			for i := range l {
				v.Assert(sl[i] == l[i].Message, "C10:sanitize-list")
			}
		}
		v.Assert(seen == len(errs), "C10:sanitize-keys")
		v.Cover("some-issues")
	case "first-and-unique":
		x, y, w := v.Int("x"), v.Int("y"), v.Int("w")
		v.Assume(v.And(x != 0, v.And(y != 0, w != 0)))
		var first *z.ZogIssue
		fm := func(e *z.ZogIssue, c z.Ctx) {
			if first == nil {
				first = e
			}
			conf.DefaultIssueFormatter(e, c)
		}
		var d struct {
			A int
			B int
			L []int
		}
		s := z.Struct(z.Schema{"a": z.Int().GT(100).LT(-100), "b": z.Int().GT(100), "l": z.Slice(z.Int().GT(100))})
		var errs z.ZogIssueMap
		v.MapOrderChoice(true)
		if b == "validate" {
			d.A, d.B, d.L = x, y, []int{w, x}
			errs = s.Validate(&d, z.WithIssueFormatter(fm))
		} else {
			errs = s.Parse(map[string]any{"a": x, "b": y, "l": []any{w, x}}, &d, z.WithIssueFormatter(fm))
		}
		c10WellFormed(errs)
		if errs != nil {
			v.Cover("some-issues")
			v.Assert(first != nil && errs["$first"][0] == first, "C10:first-is-not-the-first-recorded")
		} else {
			v.Assert(first == nil, "C10:issue-lost")
		}
	case "root-key":
		// the empty path is keyed $root
		x := v.Int("x")
		var d []int
		errs := z.Slice(z.Int()).Min(3).Parse([]any{x}, &d)
		c10WellFormed(errs)
		v.Assert(len(errs) == 2 && len(errs["$root"]) == 1 && errs["$root"][0].Path == "", "C10:root-key")
		var sd struct{ A int }
		errs = z.Struct(z.Schema{"a": z.Int()}).TestFunc(func(p any, c z.Ctx) bool { return false }, z.IssueCode("st")).Parse(map[string]any{"a": x}, &sd)
		c10WellFormed(errs)
		v.Assert(len(errs["$root"]) == 1 && errs["$root"][0].Code == "st", "C10:root-key")
		v.Cover("some-issues")
	}
}

// toJSON renders concrete maps/slices/ints (enough for the harness documents)
func toJSON(x any) string {
	switch t := x.(type) {
	case map[string]any:
		keys := make([]string, 0, len(t))
		for k := range t {
			keys = append(keys, k)
		}
		// insertion sort: deterministic documents
		for i := 1; i < len(keys); i++ {
			for j := i; j > 0 && keys[j] < keys[j-1]; j-- {
				keys[j], keys[j-1] = keys[j-1], keys[j]
			}
		}
		s := "{"
		for i, k := range keys {
			if i > 0 {
				s += ","
			}
			s += `"` + k + `":` + toJSON(t[k])
		}
		return s + "}"
	case []any:
		s := "["
		for i, e := range t {
			if i > 0 {
				s += ","
			}
			s += toJSON(e)
		}
		return s + "]"
	case int:
		return fmt.Sprintf("%d", t)
	case string:
		return `"` + t + `"`
	case nil:
		return "null"
	case bool:
		return fmt.Sprintf("%v", t)
	}
	panic("toJSON")
}
