package h

import (
	"errors"
	"math"
	"strings"

	z "github.com/Oudwins/zog"
	"github.com/Oudwins/zog/conf"
	"github.com/Oudwins/zog/i18n"
	"github.com/Oudwins/zog/i18n/en"
	"github.com/Oudwins/zog/i18n/es"
	p "github.com/Oudwins/zog/internals"
	"github.com/Oudwins/zog/zconst"
	"github.com/Oudwins/zog/parsers/zjson"
	"github.com/Oudwins/zog/zhttp"
	v "github.com/Oudwins/zog/zzverif"
)

func init() { Registry["C07"] = C07_Run }

// C07 — each execution is isolated from every other execution.
//
//  step/<probe>     one inductive step from an ARBITRARY pool state: every pool is filled with
//                   objects whose fields are symbolic (constrained only by what Free() can leave
//                   there), then the probe runs; it must observe exactly what it observes on
//                   fresh pools. sync.Pool.Get is a choice point (New() or any pooled object).
//  hist/<prior>/<probe>  explicit histories: a prior call (options, outcome, optional Collect)
//                   followed by the probe, compared with the probe alone.

var c07Probes = []string{"int-test", "int-coerce", "int-required", "struct", "slice", "custom-issue", "ptr-validate", "null-json", "msgfunc", "shared-schema", "outside-tests", "i18n-default", "negzero-param", "absent-record-keys"}
var c07Priors = []string{"ctxvalue", "formatter", "failing-struct", "collect-map", "collect-list", "catching", "panicking", "null-json", "shared-then-collect", "tests-ran", "i18n-es", "empty-tag", "collect-root", "poszero-param", "json-absent-record"}

func C07_Jobs() []string {
	var out []string
	for _, pr := range c07Probes {
		out = append(out, "step/"+pr)
	}
	for _, h := range c07Priors {
		for _, pr := range c07Probes {
			out = append(out, "hist/"+h+"/"+pr)
		}
	}
	return out
}
func C07_Covers() []string { return []string{"probe-issue", "recycled-object-used"} }

// an observation: everything a caller can see of one execution
type c07Obs struct {
	items []any
}

func (o *c07Obs) add(x ...any) { o.items = append(o.items, x...) }

func eqAny(a, b any) bool {
	switch x := a.(type) {
	case nil:
		return b == nil
	case string:
		y, ok := b.(string)
		return ok && x == y
	case int:
		y, ok := b.(int)
		return ok && x == y
	case bool:
		y, ok := b.(bool)
		return ok && x == y
	case float64:
		y, ok := b.(float64)
		return ok && v.SameBits(x, y)
	}
	return false
}

func (o *c07Obs) equal(q *c07Obs) bool {
	if len(o.items) != len(q.items) {
		return false
	}
	ok := true
	for i := range o.items {
		ok = v.And(ok, eqAny(o.items[i], q.items[i]))
	}
	return ok
}

func obsIssue(o *c07Obs, e *z.ZogIssue) {
	o.add(e.Code, e.Path, e.Dtype, e.Message, len(e.Params), e.Err == nil)
	for _, k := range []string{"gt", "stale", "min"} {
		if pv, ok := e.Params[k]; ok {
			o.add(k, pv)
		} else {
			o.add(k, nil)
		}
	}
	switch val := e.Value.(type) {
	case nil:
		o.add("value:nil")
	case *int:
		o.add("value:*int", *val)
	case int:
		o.add("value:int", val)
	case string:
		o.add("value:string", val)
	default:
		o.add("value:other")
	}
}

func obsList(o *c07Obs, l z.ZogIssueList) {
	o.add(len(l))
	for _, e := range l {
		obsIssue(o, e)
	}
}

func obsMap(o *c07Obs, m z.ZogIssueMap) {
	o.add(len(m))
	for _, k := range []string{"$first", "$root", "a", "b", "[0]", "[1]", "stale", "old", "p", "q"} {
		l, ok := m[k]
		o.add(k, ok)
		if k == "$first" { // which issue is first may depend on the visit order (C09)
			o.add(len(l))
			continue
		}
		obsList(o, l)
	}
}

// the probe: one execution whose complete observation is returned
func c07Probe(kind string, g, x int) *c07Obs {
	o := &c07Obs{}
	seen := func(val any, ctx z.Ctx) bool {
		// the context must hold exactly this call's values
		o.add("ctx", ctx.Get("k"), ctx.Get("mine"), ctx.Get("lang"))
		return true
	}
	switch kind {
	case "int-test":
		d := 0
		errs := z.Int().GT(g).TestFunc(seen).Parse(x, &d, z.WithCtxValue("mine", 7))
		obsList(o, errs)
		o.add(d)
	case "int-coerce":
		d := 5
		errs := z.Int().TestFunc(seen).Parse("zz", &d)
		obsList(o, errs)
		o.add(d)
	case "int-required":
		d := 5
		errs := z.Int().Required().Parse(nil, &d)
		obsList(o, errs)
		o.add(d)
	case "struct":
		var d struct {
			A int
			B string
		}
		errs := z.Struct(z.Schema{"a": z.Int().GT(g).TestFunc(seen), "b": z.String().Min(2).Required()}).Parse(map[string]any{"a": x, "b": "q"}, &d, z.WithCtxValue("mine", 7))
		obsMap(o, errs)
		o.add(d.A, d.B)
	case "slice":
		var d []int
		errs := z.Slice(z.Int().GT(g)).Min(3).Parse([]any{x, "zz"}, &d)
		obsMap(o, errs)
		o.add(len(d))
		for _, e := range d {
			o.add(e)
		}
	case "ptr-validate":
		// Validate through pointer nodes: NotNil on a nil pointer, and the own tests of a
		// pointed-to slice
		var np *int
		obsMap(o, z.Ptr(z.Int()).NotNil().Validate(&np))
		sl := []int{x}
		psl := &sl
		obsMap(o, z.Ptr(z.Slice(z.Int().GT(g)).Min(3)).Validate(&psl))
		var ns struct {
			P *int
			Q *[]int
		}
		obsMap(o, z.Struct(z.Schema{"p": z.Ptr(z.Int()).NotNil(), "q": z.Ptr(z.Slice(z.Int())).NotNil()}).Validate(&ns))
	case "absent-record-keys":
		// a record that is nil in a Go map: its leaves are reported under this call's keys (schema
		// key / zog tag - a map has no source tag), whatever sources earlier calls read from
		var d struct {
			Home struct {
				Zip int `json:"zip_code" form:"zip_form" query:"zip_query" env:"ZIP_ENV"`
			} `json:"home_rec" form:"home_form"`
			Alt *struct {
				Zip int `json:"zip_code"`
			} `json:"alt_rec"`
		}
		errs := z.Struct(z.Schema{"home": z.Struct(z.Schema{"zip": z.Int().Required()}), "alt": z.Ptr(z.Struct(z.Schema{"zip": z.Int().Required()}))}).
			Parse(map[string]any{"home": nil, "alt": map[string]any{}}, &d)
		obsMap(o, errs)
		v.Assert(len(errs) == 3 && len(errs["home.zip"]) == 1 && len(errs["alt.zip"]) == 1, "C07:result-depends-on-earlier-executions")
	case "null-json":
		var d struct{ A int }
		errs := z.Struct(z.Schema{"a": z.Int()}).Parse(zjson.Decode(strings.NewReader("null")), &d, z.WithIssueFormatter(func(e *z.ZogIssue, c z.Ctx) { e.SetMessage("probe-formatter") }))
		obsMap(o, errs)
		// (state that outlives ClearPools would make the dirty and the clean run agree with each
		// other: this execution's own formatter is checked absolutely)
		v.Assert(len(errs["$root"]) == 1 && errs["$root"][0].Message == "probe-formatter" && errs["$root"][0].Code == "invalid_json", "C07:result-depends-on-earlier-executions")
	case "msgfunc":
		// a test-level MessageFunc that leaves the message alone for this issue: the message then
		// comes from this execution's formatter, never from an earlier execution
		d := 0
		quiet := z.MessageFunc(func(e *z.ZogIssue, c z.Ctx) {})
		errs := z.Int().GT(g, quiet).LT(g, z.MessageFunc(func(e *z.ZogIssue, c z.Ctx) {
			if e.Message == "" {
				e.SetMessage("mine")
			}
		})).Parse(x, &d)
		obsList(o, errs)
	case "shared-schema":
		// the same schema object (and a reusable test with params) used before and now
		d := 0
		obsList(o, c07Shared.Parse(x, &d))
		var ds struct{ A int }
		obsMap(o, z.Struct(z.Schema{"a": z.Int().Test(c07SharedTest)}).Parse(map[string]any{"a": x}, &ds))
	case "outside-tests":
		// issues built outside any test: a PostTransform error on a schema without tests, and
		// ctx.Issue() inside a Preprocess function (Parse and Validate)
		d := "pre"
		obsList(o, z.String().PostTransform(func(val any, c z.Ctx) error { return errors.New("rejected") }).Parse("abc", &d))
		n := 0
		pp := z.Preprocess(func(in int, c z.Ctx) (int, error) { return 0, c.Issue().SetMessage("from preprocess") }, z.Int())
		obsList(o, pp.Parse(x, &n))
		n = 3
		// (in Validate the message is the error's text, and a ZogIssue's text contains the address
		// of its value: the fresh issue is observed directly and a plain error is returned)
		ppv := z.Preprocess(func(in *int, c z.Ctx) (int, error) {
			iss := c.Issue()
			o.add("fresh", iss.Code, iss.Path, iss.Message, len(iss.Params), iss.Err == nil)
			return 0, errors.New("from preprocess")
		}, z.Int())
		obsList(o, ppv.Validate(&n))
		var ds struct{ A string }
		obsMap(o, z.Struct(z.Schema{"a": z.String().PostTransform(func(val any, c z.Ctx) error { return errors.New("rejected") })}).Parse(map[string]any{"a": "abc"}, &ds))
	case "negzero-param":
		// messages render this call's parameters: -0 is not +0, 2^53+1 is not 2^53
		negZero := math.Copysign(0, -1)
		d := -1.5
		e1 := z.Float64().GT(negZero).Parse(-1.5, &d)
		obsList(o, e1)
		var ds struct{ F float64 }
		obsMap(o, z.Struct(z.Schema{"f": z.Float64().LTE(negZero)}).Parse(map[string]any{"f": 3.5}, &ds))
		n := 0
		e3 := z.Int().GT(1<<53+1).Parse(5, &n)
		obsList(o, e3)
		// (process-wide state outlives ClearPools, so the dirty and the clean run would agree: checked
		// absolutely as well, without fixing how a number is printed — the text for -0 is not the
		// text for +0, the text for 2^53+1 not the one for 2^53, which the prior call rendered)
		p0 := 0.5
		ePos := z.Float64().GT(0.0).Parse(-1.5, &p0)
		eBig := z.Int().GT(1<<53).Parse(5, &n)
		v.Assert(len(e1) == 1 && len(ePos) == 1 && e1[0].Message != ePos[0].Message && len(e3) == 1 && len(eBig) == 1 && e3[0].Message != eBig[0].Message, "C07:result-depends-on-earlier-executions")
	case "i18n-default":
		// with i18n installed (by C07_Run, once, before the prior call), a call that names no
		// language is formatted in the default language
		d := ""
		obsList(o, z.String().Min(5).Parse("ab", &d))
		n := 1
		obsList(o, z.Int().GT(100).Validate(&n))
	case "custom-issue":
		d := 0
		errs := z.Int().TestFunc(func(val any, ctx z.Ctx) bool {
			ctx.AddIssue(ctx.Issue().SetCode("mycode"))
			return true
		}).Parse(x, &d)
		obsList(o, errs)
		o.add(d)
	}
	return o
}

func staleFormatter(e *z.ZogIssue, c z.Ctx) { e.SetMessage("STALE-FORMATTER") }

// a schema object and a reusable test that live across executions (rebuilt by c07Reset)
var c07Shared *z.NumberSchema[int]
var c07SharedTest z.Test

func c07Reset() {
	c07SharedTest = z.TestFunc("shared", func(val any, c z.Ctx) bool { return false }, z.Params(map[string]any{"min": 3, "gt": 4}))
	c07Shared = z.Int().GT(1 << 40).Test(c07SharedTest)
}

// dirtyPools fills every exported pool with arbitrary objects.
func dirtyPools() {
	staleVal := v.Int("staleVal")
	staleCode, stalePath, staleMsg := v.String("sCode", 2), v.String("sPath", 2), v.String("sMsg", 2)
	// dirt profile (engine-enumerated): 0 everything dirty, 1 issues and containers only,
	// 2 contexts only; the flag VALUES inside the objects are symbolic
	prof := v.Choice("profile", 3)
	issuesDirty, ctxDirty := prof != 2, prof != 1
	mkIssue := func() *p.ZogIssue {
		iss := &p.ZogIssue{Code: staleCode, Path: stalePath, Message: staleMsg, Dtype: "stale", Value: staleVal}
		if issuesDirty {
			iss.Params = map[string]any{"gt": staleVal, "stale": 1}
			iss.Err = errors.New("stale error")
		}
		return iss
	}
	n := 1
	if v.Tier() == 1 {
		n = 1 + v.Choice("objs", 2) // thorough: 1 or 2 objects per pool
	}
	for i := 0; i < n; i++ {
		ec := &p.ExecCtx{}
		if ctxDirty {
			ec.Fmter = staleFormatter
			ec.Set("k", staleVal)
			ec.Set("lang", "es")
			ec.Errors = &p.ErrsList{List: z.ZogIssueList{mkIssue()}}
		}
		p.ExecCtxPool.Put(ec)

		st := &p.Test{IssueCode: "stale_test", IssuePath: "stale", Params: map[string]any{"stale": 2}}
		sc := &p.SchemaCtx{CanCatch: v.Bool("scCatch"), Exit: v.Bool("scExit"), HasCaught: v.Bool("scCaught"), DType: "stale", Data: staleVal}
		if ctxDirty {
			sc.Test = st
		}
		p.SchemaCtxPool.Put(sc)

		iss := mkIssue()
		// representation invariant: an object is in a pool at most once (no library path frees an
		// object twice; the CollectMap double free of $first is covered by hist/collect-map)
		p.ZogIssuePool.Put(iss)
		p.InternalIssueListPool.Put(&p.ErrsList{List: z.ZogIssueList{mkIssue()}})
		p.InternalIssueMapPool.Put(&p.ErrsMap{M: z.ZogIssueMap{"$first": {mkIssue()}, "old": {mkIssue()}}})
		pb := p.PathBuilder{"", "stale", "old"} // representation invariant: element 0 is ""
		if !issuesDirty {
			pb = pb[:1]
		}
		p.PathBuilderPool.Put(&pb)
		sb := p.NewStringBuilder()
		sb.WriteString("stale")
		p.FreeStringBuilder(sb)
	}
}

func c07Prior(kind string) {
	switch kind {
	case "ctxvalue":
		d := 0
		z.Int().Parse(5, &d, z.WithCtxValue("k", v.Int("priorK")), z.WithCtxValue("lang", "es"))
	case "formatter":
		d := 0
		errs := z.Int().GT(10).Parse(5, &d, z.WithIssueFormatter(staleFormatter))
		if v.Bool("collect") {
			z.Issues.CollectList(errs)
		}
	case "failing-struct":
		var d struct {
			A int
			B string
		}
		errs := z.Struct(z.Schema{"a": z.Int().GT(100), "b": z.String().Required()}).Parse(map[string]any{"a": v.Int("priorA")}, &d, z.WithCtxValue("k", 1))
		if v.Bool("collect") {
			z.Issues.CollectMap(errs)
		}
	case "collect-map":
		var d struct{ A int }
		errs := z.Struct(z.Schema{"a": z.Int().GT(100, z.Message("custom msg"), z.IssuePath("elsewhere"))}).Parse(map[string]any{"a": 1}, &d)
		z.Issues.SanitizeMapAndCollect(errs)
	case "collect-list":
		d := 0
		errs := z.Int().GT(100).LT(-100).Parse(1, &d)
		z.Issues.SanitizeListAndCollect(errs)
	case "shared-then-collect":
		// the shared schema fails (its issues carry the tests' params), the issues are collected;
		// a catching twin swallows the same tests' issues
		d := 0
		z.Issues.CollectList(c07Shared.Parse(5, &d))
		var ds struct{ A int }
		z.Issues.SanitizeMapAndCollect(z.Struct(z.Schema{"a": z.Int().Test(c07SharedTest)}).Parse(map[string]any{"a": 5}, &ds))
		z.Int().Test(c07SharedTest).Catch(1).Parse(5, &d)
		z.Int().GT(100, z.Message("EARLIER MESSAGE")).Catch(1).Parse(5, &d)
	case "empty-tag":
		// an earlier (successful or failing) call on a destination with an empty-tag field, at the
		// root and nested, in both modes
		type inner struct {
			Kind string `zog:""`
			City string
		}
		type outer struct {
			Kind string `zog:""`
			Name string
			In   inner
		}
		var d outer
		sc := z.Struct(z.Schema{"kind": z.String(), "name": z.String().Min(1), "in": z.Struct(z.Schema{"kind": z.String(), "city": z.String().Min(v.Choice("city-min", 2) * 9)})})
		sc.Parse(map[string]any{"": "k", "name": "n", "in": map[string]any{"": "k", "city": "c"}}, &d)
		sc.Validate(&d)
	case "collect-root":
		// an earlier result whose FIRST issue sits at the root, handed back through CollectMap
		var l []string
		z.Issues.CollectMap(z.Slice(z.String()).Min(2).Parse([]any{"a"}, &l))
		var d struct{ A int }
		z.Issues.SanitizeMapAndCollect(z.Struct(z.Schema{"a": z.Int()}).TestFunc(func(p any, c z.Ctx) bool { return false }).Parse(map[string]any{"a": 1}, &d))
		var pd *int
		z.Issues.CollectMap(z.Ptr(z.Int()).NotNil().Parse(nil, &pd))
	case "poszero-param":
		// earlier calls whose messages rendered +0 and 2^53 as parameters
		f := -1.5
		z.Float64().GT(0.0).Parse(-1.5, &f)
		z.Float64().LTE(0.0).Validate(&f)
		n := 5
		z.Int().GT(1<<53).Parse(5, &n)
		z.Float64().GT(float64(1<<53)).Parse(5.0, &f)
	case "tests-ran":
		// executions whose last test carried a code, params and an IssuePath (passing and failing)
		d := ""
		z.String().Min(1).Max(7, z.IssuePath("stale")).Parse("abc", &d)
		n := 5
		z.Int().GT(100, z.IssuePath("stale"), z.Params(map[string]any{"stale": 1})).Validate(&n)
		var ds struct{ A string }
		z.Struct(z.Schema{"a": z.String().Min(1).Max(7, z.IssuePath("stale"))}).Parse(map[string]any{"a": "abc"}, &ds)
	case "i18n-es":
		// (the installation of i18n belongs to C07_Run: the language must not stick to the installed formatter)
		d := ""
		z.String().Min(5).Parse("ab", &d, z.WithCtxValue("lang", "es"))
		n := 1
		z.Int().GT(100).Validate(&n, z.WithCtxValue("lang", "es"))
	case "json-absent-record":
		// JSON, form and query documents whose nested records are null / missing
		var d struct {
			Home struct {
				Zip int `json:"zip_code" form:"zip_form" query:"zip_query"`
			} `json:"home_rec"`
			Alt *struct {
				Zip int `json:"zip_code"`
			} `json:"alt_rec"`
		}
		sc := z.Struct(z.Schema{"home": z.Struct(z.Schema{"zip": z.Int().Required()}), "alt": z.Ptr(z.Struct(z.Schema{"zip": z.Int().Required()}))})
		sc.Parse(zjson.Decode(strings.NewReader(`{"home_rec":null,"alt_rec":null}`)), &d)
		sc.Parse(zjson.Decode(strings.NewReader(`{"alt_rec":{}}`)), &d)
		sc.Parse(zhttp.Request(c11Request("POST", "application/json", `{"home_rec":null}`, "")), &d)
		sc.Parse(zhttp.Request(c11Request("POST", "application/x-www-form-urlencoded", "x=1", "")), &d)
		sc.Parse(zhttp.Request(c11Request("GET", "", "", "x=1")), &d)
	case "null-json":
		var d struct{ A int }
		z.Struct(z.Schema{"a": z.Int()}).Parse(zjson.Decode(strings.NewReader("null")), &d, z.WithIssueFormatter(staleFormatter))
		var pd *struct{ A int }
		z.Ptr(z.Struct(z.Schema{"a": z.Int()})).Parse(zjson.Decode(strings.NewReader("null")), &pd, z.WithIssueFormatter(staleFormatter))
	case "panicking":
		// a user callback panics in the middle of a nested execution and the caller recovers (as
		// net/http does): the deferred Free() calls hand half-used objects back to the pools
		func() {
			defer func() { recover() }()
			var d struct {
				N struct{ X int }
				L []int
			}
			boom := func(val any, ctx z.Ctx) bool { panic("user callback panicked") }
			z.Struct(z.Schema{"n": z.Struct(z.Schema{"x": z.Int().TestFunc(boom)}), "l": z.Slice(z.Int().TestFunc(boom))}).
				Parse(map[string]any{"n": map[string]any{"x": 1}, "l": []any{1, 2}}, &d, z.WithCtxValue("k", 9))
		}()
	case "catching":
		var d struct {
			A int
			B int
		}
		dd := 5
		z.Int().Catch(3).Parse(7, &dd) // a catching top-level primitive whose catch does not fire
		z.Int().Catch(3).Validate(&dd)
		z.Struct(z.Schema{"a": z.Int().GT(100).Catch(3), "b": z.Int().Required().Catch(4)}).Parse(map[string]any{"a": 1}, &d)
	}
}

func C07_Run(job string) {
	a, b, c, _ := split3(job)
	g, x := v.Int("g"), v.Int("x")
	probe := b
	if a == "hist" {
		probe = c
	}
	p.ClearPools()
	c07Reset()
	v.MapOrderChoice(false) // the visit order is C09's subject
	if probe == "i18n-default" {
		old := conf.IssueFormatter
		defer func() { conf.IssueFormatter = old }()
		i18n.SetLanguagesErrsMap(map[string]zconst.LangMap{"en": en.Map, "es": es.Map}, "en")
	}
	if a == "step" {
		v.PoolChoice(true)
		dirtyPools()
	} else {
		c07Prior(b)
		if v.Tier() == 1 {
			c07Prior(c07Priors[v.Choice("second-prior", len(c07Priors))])
		}
	}
	dirty := c07Probe(probe, g, x)
	v.PoolChoice(false)
	p.ClearPools()
	c07Reset()
	if probe == "i18n-default" {
		i18n.SetLanguagesErrsMap(map[string]zconst.LangMap{"en": en.Map, "es": es.Map}, "en") // a fresh installation
	}
	clean := c07Probe(probe, g, x)
	if len(clean.items) > 3 {
		v.Cover("probe-issue")
	}
	v.Cover("recycled-object-used")
	if v.Native() {
		for i := range dirty.items {
			if i < len(clean.items) && !eqAny(dirty.items[i], clean.items[i]) {
				v.Obs(v.Sprint("first difference at item ", i, ": dirty=", dirty.items[i], " clean=", clean.items[i], " context=", dirty.items[max(0, i-8):i]))
				break
			}
		}
	}
	v.Assert(dirty.equal(clean), "C07:result-depends-on-earlier-executions")
}
