package h

import (
	"strings"
	"regexp"
	"time"

	z "github.com/Oudwins/zog"
	v "github.com/Oudwins/zog/zzverif"
)

func init() { Registry["C20"] = C20_Run }

// C20 — built-in tests decide exactly their documented predicate.
// Single-test schemas; subject and parameter symbolic over their whole domain (numbers, times)
// or over all byte strings up to S bytes; issue present <=> !reference(subject, parameter).

var c20NumTypes = []string{"int", "int32", "int64", "float32", "float64"}
var c20NumOps = []string{"GT", "GTE", "LT", "LTE", "EQ", "OneOf"}
var c20StrOps = []string{"Min", "Max", "Len", "HasPrefix", "HasSuffix", "Contains", "ContainsUpper", "ContainsDigit", "ContainsSpecial", "OneOf"}

func C20_Jobs() []string { return append(c20_jobs0(), "json-records") }
func c20_jobs0() []string {
	var out []string
	for _, t := range c20NumTypes {
		for _, op := range c20NumOps {
			out = append(out, "num/"+t+"/"+op+"/validate", "num/"+t+"/"+op+"/parse")
		}
	}
	for _, op := range c20StrOps {
		out = append(out, "str/"+op)
	}
	for _, op := range []string{"After", "Before", "EQ"} {
		out = append(out, "time/"+op+"/utc", "time/"+op+"/zone")
	}
	for _, op := range []string{"Min", "Max", "Len", "ContainsInt", "ContainsStr", "ContainsPtr", "ContainsStruct"} {
		out = append(out, "slice/"+op)
	}
	out = append(out, "regex/Email", "regex/UUID", "regex/URL", "regex/Match", "regex/MatchPatterns", "regex/EmailLabelLengths")
	out = append(out, "bool/True", "bool/False", "bool/EQ")
	return out
}

func C20_Covers() []string { return []string{"pass", "issue", "absent"} }

func strMax() int {
	if v.Tier() == 1 {
		return 4
	}
	return 3
}

func split3(job string) (a, b, c, d string) {
	parts := []string{"", "", "", ""}
	k := 0
	for i := 0; i < len(job); i++ {
		if job[i] == '/' && k < 3 {
			k++
			continue
		}
		parts[k] += string(job[i])
	}
	return parts[0], parts[1], parts[2], parts[3]
}

// verdict asserts: exactly one issue with `code` iff !ref; none otherwise.
func c20Verdict(errs z.ZogIssueList, ref bool, code string) {
	if len(errs) == 0 {
		v.Cover("pass")
		v.Assert(ref, "C20:failing-value-accepted")
		return
	}
	v.Cover("issue")
	v.Assert(v.Not(ref), "C20:passing-value-rejected")
	v.Assert(len(errs) == 1, "C20:one-issue")
	v.Assert(errs[0].Code == code, "C20:issue-code")
}

type c20number interface {
	int | int32 | int64 | float32 | float64
}

func c20Num[T c20number](mk func() *z.NumberSchema[T], nd func(string) T, op, mode string) {
	x, n := nd("x"), nd("n")
	s := mk()
	var ref bool
	code := ""
	switch op {
	case "GT":
		s, ref, code = s.GT(n), x > n, "gt"
	case "GTE":
		s, ref, code = s.GTE(n), x >= n, "gte"
	case "LT":
		s, ref, code = s.LT(n), x < n, "lt"
	case "LTE":
		s, ref, code = s.LTE(n), x <= n, "lte"
	case "EQ":
		s, ref, code = s.EQ(n), x == n, "eq"
	case "OneOf":
		m, k := nd("m"), nd("k")
		s, code = s.OneOf([]T{n, m, k}), "one_of_options"
		ref = v.Or(x == n, v.Or(x == m, x == k))
	}
	var zero T
	if mode == "validate" {
		d := x
		errs := s.Validate(&d)
		if x == zero { // incl. -0.0: reflect.Value.IsZero compares floats with == since Go 1.22
			v.Cover("absent")
			v.Assert(len(errs) == 0, "C20:absent-optional-tested")
			return
		}
		c20Verdict(errs, ref, code)
		v.Assert(d == x || x != x, "C20:validate-changed-value")
		return
	}
	var d T
	errs := s.Parse(x, &d)
	c20Verdict(errs, ref, code)
	v.Assert(d == x || x != x, "C20:parse-changed-value")
}

func c20Str(op string) {
	S := strMax()
	if op == "ContainsSpecial" {
		S-- // four range tests per rune in the real closure: one byte less keeps the job short
	}
	s := v.String("s", S)
	v.Assume(len(s) > 0) // Validate: "" is absent
	sc := z.String()
	var ref bool
	code := ""
	switch op {
	case "Min":
		n := v.Int("n")
		sc, ref, code = sc.Min(n), len(s) >= n, "min"
	case "Max":
		n := v.Int("n")
		sc, ref, code = sc.Max(n), len(s) <= n, "max"
	case "Len":
		n := v.Int("n")
		sc, ref, code = sc.Len(n), len(s) == n, "len"
	case "HasPrefix":
		p := v.String("p", S)
		sc, code = sc.HasPrefix(p), "prefix"
		r := v.B2I(len(p) <= len(s))
		for i := 0; i < len(p) && i < len(s); i++ {
			r &= v.B2I(s[i] == p[i])
		}
		ref = r == 1
	case "HasSuffix":
		p := v.String("p", S)
		sc, code = sc.HasSuffix(p), "suffix"
		r := v.B2I(len(p) <= len(s))
		for i := 0; i < len(p) && i < len(s); i++ {
			r &= v.B2I(s[len(s)-1-i] == p[len(p)-1-i])
		}
		ref = r == 1
	case "Contains":
		p := v.String("p", S)
		sc, code = sc.Contains(p), "contained"
		any := v.B2I(len(p) == 0)
		for off := 0; off+len(p) <= len(s); off++ {
			m := 1
			for j := 0; j < len(p); j++ {
				m &= v.B2I(s[off+j] == p[j])
			}
			any |= m
		}
		ref = any == 1
	case "ContainsUpper":
		sc, code = sc.ContainsUpper(), "contains_upper"
		r := 0
		for i := 0; i < len(s); i++ {
			r |= v.B2I(s[i] >= 'A') & v.B2I(s[i] <= 'Z')
		}
		ref = r == 1
	case "ContainsDigit":
		sc, code = sc.ContainsDigit(), "contains_digit"
		r := 0
		for i := 0; i < len(s); i++ {
			r |= v.B2I(s[i] >= '0') & v.B2I(s[i] <= '9')
		}
		ref = r == 1
	case "ContainsSpecial":
		sc, code = sc.ContainsSpecial(), "contains_special"
		r := 0
		for i := 0; i < len(s); i++ {
			c := s[i]
			// ASCII punctuation: 0x21-0x2F, 0x3A-0x40, 0x5B-0x60, 0x7B-0x7E
			r |= (v.B2I(c >= 0x21) & v.B2I(c <= 0x2F)) | (v.B2I(c >= 0x3A) & v.B2I(c <= 0x40)) |
				(v.B2I(c >= 0x5B) & v.B2I(c <= 0x60)) | (v.B2I(c >= 0x7B) & v.B2I(c <= 0x7E))
		}
		ref = r == 1
	case "OneOf":
		a, b := v.String("a", S), v.String("b", S)
		sc, code = sc.OneOf([]string{a, b, "xy"}), "one_of_options"
		ref = v.Or(s == a, v.Or(s == b, s == "xy"))
	}
	d := s
	errs := sc.Validate(&d)
	c20Verdict(errs, ref, code)
}

func c20Time(op, zone string) {
	s1, n1 := v.Int64("sec1"), v.Int64("nsec1")
	s2, n2 := v.Int64("sec2"), v.Int64("nsec2")
	const lim = int64(1) << 61
	v.Assume(v.And(v.And(s1 >= -lim, s1 <= lim), v.And(n1 >= 0, n1 < 1000000000)))
	v.Assume(v.And(v.And(s2 >= -lim, s2 <= lim), v.And(n2 >= 0, n2 < 1000000000)))
	x := time.Unix(s1, n1).UTC()
	t := time.Unix(s2, n2).UTC()
	if zone == "zone" {
		t = t.In(time.FixedZone("X", 5*3600+1800))
	}
	sc := z.Time()
	var ref bool
	code := ""
	switch op {
	case "After":
		sc, code = sc.After(t), "after"
		ref = v.Or(s1 > s2, v.And(s1 == s2, n1 > n2))
	case "Before":
		sc, code = sc.Before(t), "before"
		ref = v.Or(s1 < s2, v.And(s1 == s2, n1 < n2))
	case "EQ":
		sc, code = sc.EQ(t), "eq"
		ref = v.And(s1 == s2, n1 == n2)
	}
	// Parse: every instant is a value, the zero instant included
	var pd time.Time
	c20Verdict(sc.Parse(x, &pd), ref, code)
	// Validate of the same instant carried in a location: not the zero VALUE, hence present
	dz := x.In(time.FixedZone("Y", -3600))
	c20Verdict(sc.Validate(&dz), ref, code)
	d := x
	errs := sc.Validate(&d)
	if v.And(s1 == -62135596800, n1 == 0) { // the zero time is absent in Validate
		v.Cover("absent")
		v.Assert(len(errs) == 0, "C20:absent-optional-tested")
		return
	}
	c20Verdict(errs, ref, code)
}

type c20pt struct {
	A int
	P *int
}

func c20Slice(op string) {
	n := v.Choice("len", 4) // L <= 3
	switch op {
	case "Min", "Max", "Len":
		xs := make([]int, n)
		for i := range xs {
			xs[i] = v.Int("e")
		}
		k := v.Int("k")
		sc := z.Slice(z.Int())
		var ref bool
		code := ""
		switch op {
		case "Min":
			sc, ref, code = sc.Min(k), n >= k, "min"
		case "Max":
			sc, ref, code = sc.Max(k), n <= k, "max"
		case "Len":
			sc, ref, code = sc.Len(k), n == k, "len"
		}
		errs := sc.Validate(&xs)
		c20SliceVerdict(errs, n, ref, code)
	case "ContainsInt":
		xs := make([]int, n)
		needle := v.Int("needle")
		r := 0
		for i := range xs {
			xs[i] = v.Int("e")
			r |= v.B2I(xs[i] == needle)
		}
		errs := z.Slice(z.Int()).Contains(needle).Validate(&xs)
		c20SliceVerdict(errs, n, r == 1, "contained")
	case "ContainsStr":
		xs := make([]string, n)
		needle := v.String("needle", 2)
		r := 0
		for i := range xs {
			xs[i] = v.String("e", 2)
			r |= v.B2I(xs[i] == needle)
		}
		errs := z.Slice(z.String()).Contains(needle).Validate(&xs)
		c20SliceVerdict(errs, n, r == 1, "contained")
	case "ContainsPtr":
		// membership is by deep equality: a different pointer to an equal value is a member
		xs := make([]*int, n)
		nv := v.Int("needle")
		needle := &nv
		r := 0
		for i := range xs {
			e := v.Int("e")
			xs[i] = &e
			r |= v.B2I(e == nv)
		}
		errs := z.Slice(z.Ptr(z.Int())).Contains(needle).Validate(&xs)
		c20SliceVerdict(errs, n, r == 1, "contained")
	case "ContainsStruct":
		xs := make([]c20pt, n)
		nv, na := v.Int("needle"), v.Int("na")
		needle := c20pt{A: na, P: &nv}
		r := 0
		for i := range xs {
			e, a := v.Int("e"), v.Int("a")
			xs[i] = c20pt{A: a, P: &e}
			r |= v.B2I(e == nv) & v.B2I(a == na)
		}
		errs := z.Slice(z.Struct(z.Schema{"a": z.Int()})).Contains(needle).Validate(&xs)
		c20SliceVerdict(errs, n, r == 1, "contained")
	}
}

func c20SliceVerdict(errs z.ZogIssueMap, n int, ref bool, code string) {
	if n == 0 { // an empty slice is absent in Validate
		v.Cover("absent")
		v.Assert(len(errs) == 0, "C20:absent-optional-tested")
		return
	}
	if len(errs) == 0 {
		v.Cover("pass")
		v.Assert(ref, "C20:failing-value-accepted")
		return
	}
	v.Cover("issue")
	v.Assert(v.Not(ref), "C20:passing-value-rejected")
	root := errs["$root"]
	v.Assert(len(root) == 1, "C20:one-issue")
	v.Assert(root[0].Code == code, "C20:issue-code")
	v.Assert(len(errs) == 2, "C20:issue-keys") // $first + $root
}

// regex-backed tests: a catalogue of concrete subjects with the verdict the stated grammar
// gives (HTML5 e-mail, 8-4-4-4-12 hex, absolute URL with scheme and host). No symbolic
// variables: the engine only executes the wiring (which regex, negation, code) here.
type c20case struct {
	s    string
	want bool
}

var c20Emails = []c20case{
	{"a@b.co", true}, {"john.doe+tag@example-host.org", true}, {"x@y", true}, {"a@b..c", false}, {"a@-b.c", false},
	{"@b.c", false}, {"a@", false}, {"a b@c.d", false}, {"a@b.c\n", false}, {"a@b_c.d", false}, {"é@b.c", false},
	{"a@b.c-", false}, {"!#$%&'*+/=?^_`{|}~-@x.y", true},
	{"joe\u212a@example.com", false}, {"\u017fam@example.com", false}, {"joe@exam\u212aple.com", false}, {"JOE@EXAMPLE.COM", true},
}
var c20UUIDs = []c20case{
	{"123e4567-e89b-12d3-a456-426614174000", true}, {"123E4567-E89B-12D3-A456-426614174000", true},
	{"123e4567e89b12d3a456426614174000", false}, {"123e4567-e89b-12d3-a456-42661417400", false},
	{"123e4567-e89b-12d3-a456-4266141740000", false}, {"g23e4567-e89b-12d3-a456-426614174000", false},
	{" 123e4567-e89b-12d3-a456-426614174000", false}, {"123e4567-e89b-12d3-a456-426614174000\n", false},
	{"123e4567-e89b-12d3-a456-42661417400\u212a", false}, {"ABCDEFAB-CDEF-ABCD-EFAB-CDEFABCDEFAB", true},
}
var c20URLs = []c20case{
	{"http://example.com", true}, {"https://a.b/c?d=e#f", true}, {"ftp://h", true}, {"example.com", false},
	{"http://", false}, {"/just/path", false}, {"mailto:a@b.c", false}, {"://x", false}, {"http://%zz", false},
	{"http://example.com#top", true}, {"https://example.com?q=1#frag", true}, {"http://[::1]#", true}, {"http://[::1]:80/x", true},
}

// Match follows the stated grammar of the pattern it was given: unanchored literals match
// anywhere, anchors bind, classes and alternations work; also negated
var c20Patterns = []struct {
	re   string
	s    string
	want bool
}{
	{"abc", "abc", true}, {"abc", "xabc", true}, {"abc", "xxabcxx", true}, {"abc", "ab", false}, {"abc", "abxc", false},
	{`a\.c`, "xa.c", true}, {`a\.c`, "abc", false}, {"(abc)", "zabc", true}, {"héllo", "say héllo", true}, {"^abc", "xabc", false}, {"^abc", "abcx", true},
	{"abc$", "xabc", true}, {"abc$", "abcx", false}, {"a|b", "xxb", true}, {"a|b", "xx", false}, {"[0-9]+", "ab12", true}, {"", "anything", true},
}

func c20MatchPatterns() {
	c := c20Patterns[v.Choice("case", len(c20Patterns))]
	re := regexp.MustCompile(c.re)
	d := c.s
	c20Verdict(z.String().Match(re).Validate(&d), c.want, "match")
	var p string
	c20Verdict(z.String().Match(re).Parse(c.s, &p), c.want, "match")
	c20Verdict(z.String().Not().Match(re).Validate(&d), !c.want, "not_match")
}

// Email: every domain label has 1..63 characters (lengths around the bound, in every label position)
func c20EmailLabels() {
	n := []int{1, 2, 62, 63, 64, 65, 100}[v.Choice("label-len", 7)]
	label := strings.Repeat("a", n)
	addr := []string{"u@" + label + ".com", "u@sub." + label + ".org", "u@" + label, "u@x." + label}[v.Choice("position", 4)]
	d := addr
	c20Verdict(z.String().Email().Validate(&d), n <= 63, "email")
	var p string
	c20Verdict(z.String().Email().Parse(addr, &p), n <= 63, "email")
}

func c20Regex(kind string) {
	if kind == "MatchPatterns" {
		c20MatchPatterns()
		return
	}
	if kind == "EmailLabelLengths" {
		c20EmailLabels()
		return
	}
	var cases []c20case
	switch kind {
	case "Email":
		cases = c20Emails
	case "UUID":
		cases = c20UUIDs
	case "URL":
		cases = c20URLs
	case "Match":
		cases = []c20case{{"abc", true}, {"abcd", false}, {"xabc", false}, {"ABC", false}}
	}
	k := v.Choice("case", len(cases))
	c := cases[k]
	sc := z.String()
	code := ""
	switch kind {
	case "Email":
		sc, code = sc.Email(), "email"
	case "UUID":
		sc, code = sc.UUID(), "uuid"
	case "URL":
		sc, code = sc.URL(), "url"
	case "Match":
		sc, code = sc.Match(regexp.MustCompile("^[a-c]{3}$")), "match"
	}
	d := c.s
	errs := sc.Validate(&d)
	c20Verdict(errs, c.want, code)
}

func C20_Run(job string) {
	if job == "json-records" {
		jrCheck("C20")
		return
	}
	a, b, c, d := split3(job)
	switch a {
	case "num":
		switch b {
		case "int":
			c20Num(func() *z.NumberSchema[int] { return z.Int() }, v.Int, c, d)
		case "int32":
			c20Num(func() *z.NumberSchema[int32] { return z.Int32() }, v.Int32, c, d)
		case "int64":
			c20Num(func() *z.NumberSchema[int64] { return z.Int64() }, v.Int64, c, d)
		case "float32":
			c20Num(func() *z.NumberSchema[float32] { return z.Float32() }, v.Float32, c, d)
		case "float64":
			c20Num(func() *z.NumberSchema[float64] { return z.Float64() }, v.Float64, c, d)
		}
	case "str":
		c20Str(b)
	case "time":
		c20Time(b, c)
	case "slice":
		c20Slice(b)
	case "regex":
		c20Regex(b)
	case "bool":
		c20Bool(b)
	}
}

// Bool tests: True/False/EQ are equality with the stated value, in both modes. In Validate false is the zero value of an optional node (no test runs).
func c20Bool(op string) {
	x := v.Bool("x")
	p := v.Bool("p")
	sc := z.Bool()
	want := p
	switch op {
	case "True":
		sc, want = sc.True(), true
	case "False":
		sc, want = sc.False(), false
	default:
		sc = sc.EQ(p)
	}
	var d bool
	errs := sc.Parse(x, &d)
	c20Verdict(errs, x == want, "eq")
	v.Assert(d == x, "C20:value")
	d = x
	errs = sc.Required().Validate(&d)
	if !x {
		v.Cover("absent")
		v.Assert(len(errs) == 1 && errs[0].Code == "required", "C20:absent")
		return
	}
	c20Verdict(errs, x == want, "eq")
}
