package h

import (
	"errors"
	"time"

	z "github.com/Oudwins/zog"
	"github.com/Oudwins/zog/conf"
	"github.com/Oudwins/zog/zconst"
	v "github.com/Oudwins/zog/zzverif"
)

func init() {
	Registry["C05"] = C05_Run
	Registry["C09"] = C09_Run
	Registry["C13"] = C13_Run
}

// ---------------------------------------------------------------------------------------
// C05 — Catch replaces any failure of its own node, and only of its own node.
// Relational, no reference semantics: the schema S with a catching focus node is run next to
// its twin S' in which the focus node is the same node without Catch, on the same input.

func C05_Jobs() []string { return append(c05_jobs0(), "json-records") }
func c05_jobs0() []string {
	out := []string{"multi-issue/parse", "multi-issue/validate", "ptr-elem/parse", "kinds/parse", "kinds/validate", "redirected/parse", "redirected/validate", "negated/parse", "negated/validate"}
	for _, j := range shapeJobs() {
		_, tm, variant, d := split3(j)
		if tm == "T5" || tm == "T6" || tm == "T7" {
			continue // the relational twin check covers primitives' placements T1..T4
		}
		if variant == "stest" {
			continue // a struct-level test that reads the catching field legitimately sees the catch value
		}
		if jobDeco(d)&dCatch != 0 {
			out = append(out, j)
		}
	}
	return out
}
func C05_Covers() []string { return []string{"caught", "not-caught"} }

// focus nodes of a shape and the issue paths they own
func (sh *shape) focus() ([]*IntNode, []string, Node) {
	switch {
	case sh.prim != nil:
		if n, ok := sh.prim.(*IntNode); ok {
			return []*IntNode{n}, []string{""}, nil
		}
		return nil, []string{""}, sh.prim
	case sh.sl != nil:
		ns := []*IntNode{sh.sl.El}
		for _, e := range sh.sl.inEls {
			ns = append(ns, e)
		}
		// every element position belongs to the catching element schema (the elements may come
		// from the input or from the slice's default)
		return ns, []string{idx(0), idx(1), idx(2)}, nil
	}
	if in, ok := sh.top.Kids[0].(*StructNode); ok {
		return []*IntNode{in.Kids[0].(*IntNode)}, []string{sh.top.Keys[0] + "." + in.Keys[0]}, nil
	}
	if pn, ok := sh.top.Kids[0].(*PtrNode); ok {
		return []*IntNode{pn.El}, []string{sh.top.Keys[0]}, nil
	}
	return []*IntNode{sh.top.Kids[0].(*IntNode)}, []string{sh.top.Keys[0]}, nil
}

func setCatch(sh *shape, on bool) {
	ns, _, other := sh.focus()
	for _, n := range ns {
		n.HasCatch = on
	}
	switch o := other.(type) {
	case *StrNode:
		o.HasCatch = on
	case *BoolNode:
		o.HasCatch = on
	case *FloatNode:
		o.HasCatch = on
	case *TimeNode:
		o.HasCatch = on
	}
}

func isFocusPath(ps []string, k string) bool {
	for _, p := range ps {
		if rootKey(p) == k {
			return true
		}
	}
	return false
}

func codesOf(l z.ZogIssueList) string {
	s := ""
	for _, e := range l {
		s += e.Code + "|" + e.Dtype + "|" + e.Path + "|" + e.Message + ";"
	}
	return s
}

// issue maps equal on every key except $first and the keys in skip
func sameMapsExcept(a, b z.ZogIssueMap, skip []string) bool {
	for k, l := range a {
		if k == "$first" || isFocusPath(skip, k) {
			continue
		}
		if codesOf(l) != codesOf(b[k]) {
			return false
		}
	}
	for k, l := range b {
		if k == "$first" || isFocusPath(skip, k) {
			continue
		}
		if codesOf(l) != codesOf(a[k]) {
			return false
		}
	}
	return true
}

func eqIntSlices(a, b []int) bool {
	if len(a) != len(b) {
		return false
	}
	ok := true
	for i := range a {
		ok = v.And(ok, a[i] == b[i])
	}
	return ok
}

func eqPtrInt(a, b *int) bool {
	if a == nil || b == nil {
		return a == nil && b == nil
	}
	return *a == *b
}

// destinations equal on every field except the named one ("" = none)
// the issue list is the pointer's own not_nil report (not a failure of the pointed-to node)
func isAbsentNotNil(l z.ZogIssueList) bool { return len(l) == 1 && l[0].Code == "not_nil" }

func destEqualExcept(a, b *Dest, skip string) bool {
	ok := true
	if skip != "i" {
		ok = v.And(ok, a.I == b.I)
	}
	ok = v.And(ok, a.J == b.J)
	ok = v.And(ok, v.And(a.S == b.S, a.T == b.T))
	ok = v.And(ok, a.B == b.B)
	ok = v.And(ok, eqIntSlices(a.LI, b.LI))
	if skip != "pI" {
		ok = v.And(ok, eqPtrInt(a.PI, b.PI))
	}
	if skip != "n.x" {
		ok = v.And(ok, a.N.X == b.N.X)
	}
	ok = v.And(ok, a.N.Y == b.N.Y)
	ok = v.And(ok, v.And(a.C == b.C, a.U == b.U))
	ok = v.And(ok, v.And(v.SameBits(a.F, b.F), a.W.Equal(b.W)))
	if len(a.LN) != len(b.LN) || (a.PN == nil) != (b.PN == nil) {
		return false
	}
	for i := range a.LN {
		ok = v.And(ok, v.And(a.LN[i].X == b.LN[i].X, a.LN[i].Y == b.LN[i].Y))
	}
	if a.PN != nil {
		ok = v.And(ok, v.And(a.PN.X == b.PN.X, a.PN.Y == b.PN.Y))
	}
	return ok
}

func c05Extra(kind, mode string) {
	x := v.Int("x")
	g := v.Int("g")
	switch kind {
	case "multi-issue":
		// a catching node swallows every issue its tests report, however many per call
		many := z.Test{Func: func(val any, c z.Ctx) {
			if val.(int) > g { // a Test added to a primitive schema receives the value itself
				return
			}
			c.AddIssue(c.Issue().SetCode("first"))
			c.AddIssue(c.Issue().SetCode("second"))
			c.AddIssue(c.Issue().SetCode("third"))
		}}
		mk := func(catch bool) *z.StructSchema {
			s := z.Int()
			s = s.Test(many)
			if catch {
				s = s.Catch(7)
			}
			return z.Struct(z.Schema{"a": s, "l": z.Slice(s)})
		}
		var d1, d2 struct {
			A int
			L []int
		}
		v.Assume(x != 0)
		var e1, e2 z.ZogIssueMap
		if mode == "validate" {
			d1.A, d1.L, d2.A, d2.L = x, []int{x, x}, x, []int{x, x}
			e1, e2 = mk(true).Validate(&d1), mk(false).Validate(&d2)
		} else {
			in := map[string]any{"a": x, "l": []any{x, x}}
			e1, e2 = mk(true).Parse(in, &d1), mk(false).Parse(in, &d2)
		}
		v.Assert(e1 == nil, "C05:catching-node-reported-an-issue")
		if e2 != nil {
			v.Cover("caught")
			v.Assert(len(e2["a"]) == 3 && len(e2["l[1]"]) == 3, "C05:twin-lost-issues")
			v.Assert(d1.A == 7 && len(d1.L) == 2 && d1.L[0] == 7 && d1.L[1] == 7, "C05:failure-did-not-yield-catch-value")
		} else {
			v.Cover("not-caught")
			v.Assert(d1.A == x && d1.L[1] == x, "C05:catch-value-used-without-failure")
		}
	case "kinds":
		c05Kinds(mode, g)
	case "negated":
		// a failed NEGATED test of a catching node is caught like any other failed test
		str := visible("s", 2)
		sub := visible("sub", 1)
		v.Assume(len(str) > 0 && len(sub) > 0)
		mk := func(catch bool) *z.StructSchema {
			s := z.String().Not().Contains(sub).Not().HasPrefix("t")
			if catch {
				s = s.Catch("fallback")
			}
			return z.Struct(z.Schema{"a": s, "l": z.Slice(s)})
		}
		var d1, d2 struct {
			A string
			L []string
		}
		var e1, e2 z.ZogIssueMap
		if mode == "validate" {
			d1.A, d1.L, d2.A, d2.L = str, []string{str, str}, str, []string{str, str}
			e1, e2 = mk(true).Validate(&d1), mk(false).Validate(&d2)
		} else {
			in := map[string]any{"a": str, "l": []any{str, str}}
			e1, e2 = mk(true).Parse(in, &d1), mk(false).Parse(in, &d2)
		}
		v.Assert(e1 == nil, "C05:catching-node-reported-an-issue")
		if len(e2["a"]) > 0 {
			v.Cover("caught")
			v.Assert(d1.A == "fallback" && len(d1.L) == 2 && d1.L[1] == "fallback" && d1.L[0] == "fallback", "C05:failure-did-not-yield-catch-value")
		} else {
			v.Cover("not-caught")
			v.Assert(d1.A == str && len(d1.L) == 2 && d1.L[1] == str, "C05:catch-value-used-without-failure")
		}
	case "redirected":
		// a failed test of a catching node is caught wherever its issue would have been filed
		// (IssuePath, IssueCode, Message options on the test)
		mk := func(catch bool) *z.StructSchema {
			s := z.Int().GT(g, z.IssuePath("elsewhere"), z.IssueCode("custom"), z.Message("M")).LT(1000, z.IssuePath("b"))
			if catch {
				s = s.Catch(7)
			}
			return z.Struct(z.Schema{"a": s, "b": z.Int().GT(g)})
		}
		y := v.Int("y")
		var d1, d2 struct{ A, B int }
		v.Assume(x != 0 && y != 0)
		var e1, e2 z.ZogIssueMap
		if mode == "validate" {
			d1.A, d1.B, d2.A, d2.B = x, y, x, y
			e1, e2 = mk(true).Validate(&d1), mk(false).Validate(&d2)
		} else {
			in := map[string]any{"a": x, "b": y}
			e1, e2 = mk(true).Parse(in, &d1), mk(false).Parse(in, &d2)
		}
		own := len(e2["elsewhere"]) + len(e2["b"]) - v.B2I(!(y > g))
		v.Assert(len(e1["elsewhere"]) == 0 && len(e1["a"]) == 0 && len(e1["b"]) == v.B2I(!(y > g)), "C05:catching-node-reported-an-issue")
		v.Assert(d1.B == d2.B, "C05:catch-changed-other-values")
		if own > 0 {
			v.Cover("caught")
			v.Assert(d1.A == 7, "C05:failure-did-not-yield-catch-value")
		} else {
			v.Cover("not-caught")
			v.Assert(d1.A == x, "C05:catch-value-used-without-failure")
		}
	case "ptr-elem":
		// catching primitive directly behind Ptr, as slice element and at top level
		var p1, p2 *int
		e1 := z.Ptr(z.Int().GT(g).Catch(7)).Parse(x, &p1)
		e2 := z.Ptr(z.Int().GT(g)).Parse(x, &p2)
		v.Assert(e1 == nil && p1 != nil, "C05:failure-did-not-yield-catch-value")
		if e2 != nil {
			v.Cover("caught")
			v.Assert(*p1 == 7, "C05:failure-did-not-yield-catch-value")
		} else {
			v.Cover("not-caught")
			v.Assert(*p1 == x, "C05:catch-value-used-without-failure")
		}
		var l1 []*int
		e3 := z.Slice(z.Ptr(z.Int().GT(g).Catch(7))).Parse([]any{x, "zz"}, &l1)
		v.Assert(e3 == nil && len(l1) == 2 && l1[0] != nil && l1[1] != nil && *l1[1] == 7, "C05:failure-did-not-yield-catch-value")
	}
}

// catching nodes of the other primitive kinds (Float64, Time, Bool, String) as a struct field
// next to a non-catching sibling: the twin comparison of C05 for every kind of primitive
func c05Kinds(mode string, g int) {
	type D struct {
		F float64
		T time.Time
		B bool
		S string
		Y int
	}
	t0 := time.Unix(1000, 0).UTC()
	tc := time.Unix(77, 0).UTC()
	kind := v.Choice("kind", 4)
	var zeroInstant, timeEQ bool
	var tv time.Time
	key := []string{"f", "t", "b", "s"}[kind]
	fg := v.Float64("fg")
	mk := func(catch bool) *z.StructSchema {
		var n z.ZogSchema
		switch kind {
		case 0:
			s := z.Float64().GT(fg).LTE(1e308).Required()
			if catch {
				s = s.Catch(1.5)
			}
			n = s
		case 1:
			s := z.Time().After(t0).Required()
			if zeroInstant {
				s = z.Time().Before(t0).Required()
			} else if timeEQ {
				s = z.Time().EQ(tv.In(time.FixedZone("Q", -7200))).Required() // the same instant: never fails
			}
			if catch {
				s = s.Catch(tc)
			}
			n = s
		case 2:
			s := z.Bool().True().Required()
			if catch {
				s = s.Catch(true)
			}
			n = s
		default:
			s := z.String().Min(2).Required()
			if catch {
				s = s.Catch("cc")
			}
			n = s
		}
		return z.Struct(z.Schema{key: n, "y": z.Int().GT(g).Required()})
	}
	f := v.Float64("f")
	sec := v.Int64("sec")
	v.Assume(sec > -(1<<40) && sec < 1<<40)
	tv = time.Unix(sec, 0).UTC()
	v.Assume(sec != -62135596800)
	zeroInstant = mode == "validate" && kind == 1 && v.Choice("zero-instant-in-zone", 2) == 1
	timeEQ = kind == 1 && !zeroInstant && v.Choice("eq-same-instant-other-zone", 2) == 1
	if zeroInstant {
		tv = time.Time{}.In(time.FixedZone("CET", 3600)) // a present value (not time.Time{}) that passes Before(t0)
	}
	b := v.Bool("b")
	s := v.String("s", 2)
	y := v.Int("y")
	var d1, d2 D
	var e1, e2 z.ZogIssueMap
	valueGiven := true
	if mode == "validate" {
		// the zero value is the absent value of Validate
		d1 = D{F: f, T: tv, B: b, S: s, Y: y}
		d2 = d1
		valueGiven = f != 0 // (zero, either sign, is the absent value)
		e1, e2 = mk(true).Validate(&d1), mk(false).Validate(&d2)
	} else {
		in := map[string]any{}
		switch v.Choice("class", 3) {
		case 0: // missing
			valueGiven = false
		case 1:
			in[key] = []int{1} // not coercible to any primitive kind but String
			valueGiven = false
		default:
			in[key] = []any{f, tv, b, s}[kind]
		}
		if v.Choice("ypresent", 2) == 1 {
			in["y"] = y
		}
		e1, e2 = mk(true).Parse(in, &d1), mk(false).Parse(in, &d2)
	}
	v.Assert(len(e1[key]) == 0, "C05:catching-node-reported-an-issue")
	v.Assert(codesOf(e1["y"]) == codesOf(e2["y"]) && d1.Y == d2.Y, "C05:catch-changed-issues-of-other-nodes")
	for k := range e1 {
		v.Assert(k == "y" || k == "$first", "C05:catching-node-reported-an-issue")
	}
	failed := len(e2[key]) > 0
	if kind == 0 && valueGiven {
		// absolutely (the twin comparison is blind to a slip that moves both sides): a float value
		// fails GT(fg).LTE(1e308) exactly when the Go comparisons say so, NaN and infinities included
		v.Assert(failed == !(f > fg && f <= 1e308), "C05:failure-did-not-yield-catch-value")
	}
	if zeroInstant {
		// a present value that passes its test: nothing fails, nothing is caught
		v.Assert(!failed && d1.T == tv, "C05:catch-value-used-without-failure")
	}
	if timeEQ && (mode == "validate" || len(e1) == 0 || true) {
		// equal instants in different locations are equal: with a time VALUE as input nothing fails
		if mode == "validate" {
			v.Assert(!failed && d1.T.Equal(tv), "C05:catch-value-used-without-failure")
		}
	}
	if failed {
		v.Cover("caught")
	} else {
		v.Cover("not-caught")
	}
	switch kind {
	case 0:
		if failed {
			v.Assert(d1.F == 1.5, "C05:failure-did-not-yield-catch-value")
		} else {
			v.Assert(d1.F == d2.F && (mode != "validate" || d1.F == f), "C05:catch-value-used-without-failure")
		}
	case 1:
		if failed {
			v.Assert(d1.T.Equal(tc), "C05:failure-did-not-yield-catch-value")
		} else {
			v.Assert(d1.T.Equal(d2.T), "C05:catch-value-used-without-failure")
		}
	case 2:
		if failed {
			v.Assert(d1.B == true, "C05:failure-did-not-yield-catch-value")
		} else {
			v.Assert(d1.B == d2.B, "C05:catch-value-used-without-failure")
		}
	default:
		if failed {
			v.Assert(d1.S == "cc", "C05:failure-did-not-yield-catch-value")
		} else {
			v.Assert(d1.S == d2.S, "C05:catch-value-used-without-failure")
		}
	}
}

// T8: the catching focus node is a String / Bool / Float64 / Time field next to a required Int
func c05OtherKinds(sh *shape) {
	fn := sh.top.Kids[0].(catchNode)
	key := sh.top.Keys[0]
	fn.setCatch(true)
	o1 := runReal(sh)
	fn.setCatch(false)
	o2 := runReal(sh)
	fn.setCatch(true)
	v.Assert(len(o1.m[key]) == 0, "C05:catching-node-reported-an-issue")
	v.Assert(sameMapsExcept(o1.m, o2.m, []string{key}), "C05:catch-changed-issues-of-other-nodes")
	v.Assert(o1.dest.J == o2.dest.J, "C05:catch-changed-other-values")
	if len(o2.m[key]) > 0 {
		v.Cover("caught")
		v.Assert(fn.holdsCatch(destField(&o1.dest, key)), "C05:failure-did-not-yield-catch-value")
	} else {
		v.Cover("not-caught")
		v.Assert(sameLeaf(destField(&o1.dest, key), destField(&o2.dest, key)), "C05:catch-value-used-without-failure")
	}
}

func C05_Run(job string) {
	if job == "json-records" {
		jrCheck("C05")
		return
	}
	if a, b, _, _ := split3(job); a == "multi-issue" || a == "ptr-elem" || a == "kinds" || a == "redirected" || a == "negated" {
		c05Extra(a, b)
		return
	}
	sh := buildShape(job)
	if _, tm, _, _ := split3(job); tm == "T8" {
		c05OtherKinds(sh)
		return
	}
	if sh.top != nil {
		// struct-level tests that read the catching field legitimately see the catch value: not part of
		// the twin comparison (they stay in C01/C02/C09)
		for _, kid := range sh.top.Kids {
			if in, ok := kid.(*StructNode); ok {
				in.TCode = ""
			}
		}
	}
	ns, paths, other := sh.focus()
	setCatch(sh, true)
	o1 := runReal(sh)
	setCatch(sh, false)
	o2 := runReal(sh)
	setCatch(sh, true)

	switch {
	case sh.prim != nil:
		// (a) a catching node never contributes an issue
		v.Assert(len(o1.list) == 0, "C05:catching-node-reported-an-issue")
		failed := len(o2.list) > 0
		if failed {
			v.Cover("caught")
		} else {
			v.Cover("not-caught")
		}
		switch n := sh.prim.(type) {
		case *IntNode:
			if failed {
				v.Assert(o1.dInt == n.Catch, "C05:failure-did-not-yield-catch-value")
			} else {
				v.Assert(o1.dInt == o2.dInt, "C05:catch-value-used-without-failure")
			}
		case *StrNode:
			if failed {
				v.Assert(o1.dStr == n.Catch, "C05:failure-did-not-yield-catch-value")
			} else {
				v.Assert(o1.dStr == o2.dStr, "C05:catch-value-used-without-failure")
			}
		case *BoolNode:
			if failed {
				v.Assert(o1.dB == n.Catch, "C05:failure-did-not-yield-catch-value")
			} else {
				v.Assert(o1.dB == o2.dB, "C05:catch-value-used-without-failure")
			}
		case *FloatNode:
			if failed {
				v.Assert(v.SameBits(o1.dF, n.Catch), "C05:failure-did-not-yield-catch-value")
			} else {
				v.Assert(v.SameBits(o1.dF, o2.dF), "C05:catch-value-used-without-failure")
			}
		case *TimeNode:
			if failed {
				v.Assert(o1.dT.Equal(n.Catch), "C05:failure-did-not-yield-catch-value")
			} else {
				v.Assert(o1.dT.Equal(o2.dT), "C05:catch-value-used-without-failure")
			}
		}
		_ = other
	case sh.sl != nil:
		for i, p := range paths {
			v.Assert(len(o1.m[p]) == 0, "C05:catching-node-reported-an-issue")
			if i < len(o1.dSl) && i < len(o2.dSl) {
				if len(o2.m[p]) > 0 {
					v.Cover("caught")
					v.Assert(o1.dSl[i] == ns[0].Catch, "C05:failure-did-not-yield-catch-value")
				} else {
					v.Cover("not-caught")
					v.Assert(o1.dSl[i] == o2.dSl[i], "C05:catch-value-used-without-failure")
				}
			}
		}
		// (c) nothing else is affected: slice-level issues and the length
		v.Assert(sameMapsExcept(o1.m, o2.m, paths), "C05:catch-changed-issues-of-other-nodes")
		v.Assert(len(o1.dSl) == len(o2.dSl), "C05:catch-changed-other-values")
	default:
		p := paths[0]
		// issues the focus node itself contributes at p (a pointer's own not_nil is not one)
		own := func(m z.ZogIssueMap) int {
			n := 0
			for _, e := range m[p] {
				if !(p == "pI" && e.Code == "not_nil") {
					n++
				}
			}
			return n
		}
		v.Assert(own(o1.m) == 0, "C05:catching-node-reported-an-issue")
		v.Assert(len(o1.m[p])-own(o1.m) == len(o2.m[p])-own(o2.m), "C05:catch-changed-issues-of-other-nodes")
		var d1, d2 int
		switch p {
		case "i":
			d1, d2 = o1.dest.I, o2.dest.I
		case "pI":
			// the pointer itself must agree (nil or not); compare the pointees
			v.Assert((o1.dest.PI == nil) == (o2.dest.PI == nil) || own(o2.m) > 0, "C05:catch-changed-other-values")
			if o1.dest.PI != nil {
				d1 = *o1.dest.PI
			}
			if o2.dest.PI != nil {
				d2 = *o2.dest.PI
			}
			if own(o2.m) > 0 {
				v.Assert(o1.dest.PI != nil, "C05:failure-did-not-yield-catch-value")
			}
		default:
			d1, d2 = o1.dest.N.X, o2.dest.N.X
		}
		if own(o2.m) > 0 {
			v.Cover("caught")
			v.Assert(d1 == ns[0].Catch, "C05:failure-did-not-yield-catch-value")
		} else {
			v.Cover("not-caught")
			v.Assert(d1 == d2, "C05:catch-value-used-without-failure")
		}
		v.Assert(sameMapsExcept(o1.m, o2.m, paths), "C05:catch-changed-issues-of-other-nodes")
		v.Assert(destEqualExcept(&o1.dest, &o2.dest, p), "C05:catch-changed-other-values")
	}
}

// ---------------------------------------------------------------------------------------
// C09 — results do not depend on map iteration or insertion order.
// Self-composition: the same schema runs twice on the same input inside one path; the engine
// picks the field visit order of each run independently (all ordered pairs of permutations).

func C09_Jobs() []string { return append(c09_jobs0(), "json-records") }
func c09_jobs0() []string {
	var out []string
	for _, j := range shapeJobs() {
		_, t, _, d := split3(j)
		if t == "T2" || t == "T4" || t == "T5" || t == "T6" || t == "T7" || t == "T8" {
			// quick: plain, catch, required+catch, all three; thorough: every decoration
			if v.Tier() == 0 && d != "d0" && d != "d4" && d != "d5" && d != "d7" {
				continue
			}
			out = append(out, j)
		}
	}
	out = append(out, "params-order", "input-key-order", "input-case-variants", "options-order/parse", "options-order/validate", "empty-tag-order/parse", "empty-tag-order/validate", "index-map-input", "many-issues-per-path", "many-issues-per-call")
	return out
}
func C09_Covers() []string { return []string{"both-clean", "both-issues"} }

func buildShape9(job string) *shape {
	ms, tmpl, _, ds := split3(job)
	if tmpl != "T7" || true {
		return buildShape(job)
	}
	sh := &shape{mode: Parse}
	if ms == "validate" {
		sh.mode = Validate
	}
	mode := sh.mode
	a := newInt("a", jobDeco(ds), 1, classesFor(mode, focusClasses))
	b := newStr("b", dReq, 1, classesFor(mode, []int{cMissing, cVal}))
	el := newIntDeco("c.el", 0, 0)
	c := newSlice("c", dReq, 1, el, classesFor(mode, []int{cMissing, cVal}), []int{cVal}, 1)
	sh.top = newStruct("top", []string{"i", "s", "lI"}, []Node{a, b, c}, []int{cVal})
	return sh
}

var c09Lang = zconst.LangMap{"number": {"between": "must be between {{lo}} and {{hi}}", "fallback": "invalid"}, "string": {"fallback": "invalid"}}

// every field of every issue, params included
func c09Full(m z.ZogIssueMap) string {
	s := ""
	for _, k := range []string{"$root", "a", "b", "c", "contact"} {
		s += k + "="
		for _, e := range m[k] {
			s += e.Code + "|" + e.Dtype + "|" + e.Path + "|" + e.Message + "|" + v.Sprint(len(e.Params))
			for _, pk := range []string{"min", "gt", "lo"} {
				if pv, ok := e.Params[pk]; ok {
					s += "," + pk + ":" + v.Sprint(pv)
				}
			}
			s += ";"
		}
	}
	return s + v.Sprint(len(m))
}

func c09Options(mode string) {
	// test options (IssuePath, Message, Params) of one field next to siblings that fail by
	// coercion, by a plain test and by a required check: whatever the visit order, every issue
	// carries its own test's options and nobody else's
	x := v.Int("x")
	var a, b any = "ab", x
	if mode != "validate" {
		if v.Choice("b-uncoercible", 2) == 1 {
			b = "zz"
		}
		if v.Choice("a-missing", 2) == 1 {
			a = nil
		}
	}
	run := func() (string, [3]any) {
		var d struct {
			A string
			B int
			C int
		}
		s := z.Struct(z.Schema{
			"a": z.String().Min(3, z.IssuePath("contact"), z.Message("name is too short"), z.Params(map[string]any{"lo": 1})).Required(z.Message("name is required")),
			"b": z.Int().GT(17),
			"c": z.Int().Required(),
		})
		var errs z.ZogIssueMap
		if mode == "validate" {
			d.A, d.B = "ab", x
			errs = s.Validate(&d)
		} else {
			errs = s.Parse(map[string]any{"a": a, "b": b}, &d)
		}
		return c09Full(errs), [3]any{d.A, d.B, d.C}
	}
	e1, d1 := run()
	e2, d2 := run()
	v.Cover("both-issues")
	v.Cover("both-clean")
	v.Assert(e1 == e2, "C09:issues-depend-on-order")
	v.Assert(d1[0] == d2[0] && d1[1].(int) == d2[1].(int) && d1[2] == d2[2], "C09:destination-depends-on-order")
}

type c09Inner struct {
	Kind string `zog:""`
	City string
	Zip  string
}
type c09Outer struct {
	Inner c09Inner
	List  []c09Inner
}

// a field whose tag is the empty string sits next to failing siblings, nested in a struct and in
// slice items: paths and values are the same whatever order the fields are visited in
func c09EmptyTag(mode string) {
	n := v.Choice("city-min", 2) * 9
	inList := v.Choice("in-list", 2) == 1
	run := func() (string, string) {
		var d c09Outer
		in := z.Struct(z.Schema{"kind": z.String(), "city": z.String().Min(n), "zip": z.String().Min(9)})
		sc := z.Struct(z.Schema{"inner": in})
		if inList {
			sc = z.Struct(z.Schema{"list": z.Slice(in)})
		}
		var errs z.ZogIssueMap
		if mode == "validate" {
			d = c09Outer{Inner: c09Inner{"k", "c", "z"}, List: []c09Inner{{"k", "c", "z"}}}
			errs = sc.Validate(&d)
		} else {
			rec := map[string]any{"": "k", "city": "c", "zip": "z"}
			errs = sc.Parse(map[string]any{"inner": rec, "list": []any{rec}}, &d)
		}
		keys := ""
		for _, k := range []string{"inner.city", "inner.zip", "list[0].city", "list[0].zip", "city", "zip", "inner", "list[0]", "$root"} {
			keys += k + ":" + v.Sprint(len(errs[k])) + ";"
		}
		return keys + v.Sprint(len(errs)), d.Inner.Kind + d.Inner.City
	}
	e1, d1 := run()
	e2, d2 := run()
	v.Cover("both-issues")
	v.Cover("both-clean")
	v.Assert(e1 == e2, "C09:issues-depend-on-order")
	v.Assert(d1 == d2, "C09:destination-depends-on-order")
}

func C09_Run(job string) {
	if job == "json-records" {
		jrCheck("C09")
		return
	}
	if a, b, _, _ := split3(job); a == "options-order" {
		c09Options(b)
		return
	} else if a == "empty-tag-order" {
		c09EmptyTag(b)
		return
	}
	switch job {
	case "many-issues-per-path":
		// several issues on one path (3, 4, 5 failing tests of one field) next to other failing fields
		nt := 3 + v.Choice("more-tests", 3)
		run := func() string {
			var d struct{ Password, Name, Nick string }
			pw := z.String().Min(8).ContainsDigit().ContainsUpper()
			if nt >= 4 {
				pw = pw.ContainsSpecial()
			}
			if nt >= 5 {
				pw = pw.HasPrefix("Z")
			}
			errs := z.Struct(z.Schema{"password": pw, "name": z.String().Min(8), "nick": z.String().Min(8).Max(1)}).Parse(map[string]any{"password": "abc", "name": "n", "nick": "nn"}, &d)
			out := v.Sprint(len(errs))
			for _, k := range []string{"password", "name", "nick"} {
				out += "|" + k + ":" + fullCodes(errs[k])
			}
			return out
		}
		a, b := run(), run()
		v.Cover("both-issues")
		v.Cover("both-clean")
		v.Assert(a == b, "C09:issues-depend-on-order")
		return
	case "many-issues-per-call":
		// far more issues than any test suite produces (200 failing items next to a failing field):
		// every one of them is reported on every run
		n := []int{100, 127, 128, 129, 200, 300}[v.Choice("items", 6)]
		in := make([]any, n)
		for i := range in {
			in[i] = "zz"
		}
		run := func() (int, int, int) {
			var d struct {
				Title string
				Tags  []int
			}
			errs := z.Struct(z.Schema{"title": z.String().Min(5), "tags": z.Slice(z.Int())}).Parse(map[string]any{"title": "t", "tags": in}, &d)
			return len(errs), len(errs["title"]), len(errs["tags[0]"]) + len(errs["tags["+v.Itoa(n-1)+"]"])
		}
		l1, t1, e1 := run()
		l2, t2, e2 := run()
		v.Cover("both-issues")
		v.Cover("both-clean")
		v.Assert(l1 == l2 && t1 == t2 && e1 == e2, "C09:issues-depend-on-order")
		return
	case "index-map-input":
		// an input map given to a list node (index-keyed, as some form decoders produce): whatever
		// the library makes of it, it makes the same of it on every run
		x, y := v.Int("x"), v.Int("y")
		run := func() (z.ZogIssueMap, []int, []string) {
			var d struct {
				Ids  []int
				Tags []string
			}
			errs := z.Struct(z.Schema{"ids": z.Slice(z.Int().GT(5)), "tags": z.Slice(z.String())}).
				Parse(map[string]any{"ids": map[string]any{"0": x, "2": y, "1": 7}, "tags": map[string]string{"0": "a", "1": "b"}}, &d)
			return errs, d.Ids, d.Tags
		}
		e1, i1, t1 := run()
		e2, i2, t2 := run()
		v.Cover("both-issues")
		v.Cover("both-clean")
		v.Assert(sameMapsExcept(e1, e2, nil) && (e1 == nil) == (e2 == nil), "C09:issues-depend-on-order")
		v.Assert(eqIntSlices(i1, i2) && len(t1) == len(t2) && (len(t1) < 1 || t1[0] == t2[0]), "C09:destination-depends-on-order")
		return
	case "params-order":
		// messages do not depend on the iteration order of an issue's params (the engine
		// permutes the range over the params map in the formatter)
		x := v.Int("x")
		run := func() string {
			var d int
			errs := z.Int().TestFunc(func(val any, c z.Ctx) bool { return false }, z.IssueCode("between"), z.Params(map[string]any{"lo": 18, "hi": 65})).
				Parse(x, &d, z.WithIssueFormatter(conf.NewDefaultFormatter(c09Lang)))
			return fullCodes(errs)
		}
		a, b := run(), run()
		v.Cover("both-issues")
		v.Cover("both-clean")
		v.Assert(a == b, "C09:issues-depend-on-order")
		v.Assert(a == "between|number||must be between 18 and 65;", "C09:issues-depend-on-order")
		return
	case "input-case-variants":
		// input keys that differ from the schema key only by case are different keys: whatever the
		// library does with them, it does the same on every run
		x, y := v.Int("x"), v.Int("y")
		run := func() (z.ZogIssueMap, int) {
			var d struct{ Name int }
			errs := z.Struct(z.Schema{"name": z.Int().GT(10).Required()}).Parse(map[string]any{"Name": x, "NAME": y, "nAme": 3}, &d)
			return errs, d.Name
		}
		e1, d1 := run()
		e2, d2 := run()
		v.Cover("both-issues")
		v.Cover("both-clean")
		v.Assert(sameMapsExcept(e1, e2, nil) && (e1 == nil) == (e2 == nil), "C09:issues-depend-on-order")
		v.Assert(d1 == d2, "C09:destination-depends-on-order")
		return
	case "input-key-order":
		// the input map's keys are visited by the schema's order, never by the input's; a typed
		// input map goes through a provider copy (maps.Copy in Merge, params) — run twice
		x, y := v.Int("x"), v.Int("y")
		g := v.Int("g")
		run := func() (z.ZogIssueMap, [2]int) {
			var d struct{ A, B int }
			s1 := z.Struct(z.Schema{"a": z.Int().GT(g).Catch(1)})
			s2 := z.Struct(z.Schema{"b": z.Int().GT(g).Required()})
			errs := s1.Merge(s2).Parse(map[string]int{"a": x, "b": y}, &d)
			return errs, [2]int{d.A, d.B}
		}
		e1, d1 := run()
		e2, d2 := run()
		if e1 == nil && e2 == nil {
			v.Cover("both-clean")
		} else {
			v.Cover("both-issues")
		}
		v.Assert(sameMapsExcept(e1, e2, nil), "C09:issues-depend-on-order")
		v.Assert(d1[0] == d2[0] && d1[1] == d2[1], "C09:destination-depends-on-order")
		return
	}
	smallT5 = true
	sh := buildShape9(job)
	smallT5 = false
	o1 := runReal(sh)
	o2 := runReal(sh)
	if o1.m == nil && o2.m == nil {
		v.Cover("both-clean")
	} else if o1.m != nil && o2.m != nil {
		v.Cover("both-issues")
	}
	v.Assert((o1.m == nil) == (o2.m == nil), "C09:success-depends-on-order")
	v.Assert(sameMapsExcept(o1.m, o2.m, nil), "C09:issues-depend-on-order")
	v.Assert(destEqualExcept(&o1.dest, &o2.dest, ""), "C09:destination-depends-on-order")
}

// ---------------------------------------------------------------------------------------
// C13 — Parse and Validate agree on fully populated values.

func C13_Jobs() []string {
	out := []string{"post/prim", "post/struct", "post/slice", "post/catch", "post/slice-tests", "post/custom-writes", "post/empty-tag", "post/embedded-dest", "post/long-slice", "post/odd-bytes"}
	for _, j := range shapeJobs() {
		m, _, _, _ := split3(j)
		if m == "validate" {
			out = append(out, j[len("validate/"):])
		}
	}
	return out
}
func C13_Covers() []string { return []string{"agree-clean", "agree-issues"} }

// populated: every leaf of the (Validate-style) input is non-zero
func populated(n Node) bool {
	switch x := n.(type) {
	case *IntNode:
		return x.N != 0
	case *StrNode:
		return len(x.S) > 0
	case *BoolNode:
		return x.B
	case *FloatNode:
		return x.F != 0
	case *TimeNode:
		return !x.zero
	case *SliceNode:
		ok := len(x.inEls) > 0
		for _, e := range x.inEls {
			ok = v.And(ok, e.N != 0)
		}
		return ok
	case *PtrNode:
		return x.El.N != 0
	case *CustomNode:
		return x.N != 0
	case *StructNode:
		ok := true
		for _, k := range x.Kids {
			ok = v.And(ok, populated(k))
		}
		return ok
	case *SliceStructNode:
		ok := len(x.Els) > 0
		for _, e := range x.Els {
			ok = v.And(ok, populated(e))
		}
		return ok
	case *PtrStructNode:
		return populated(x.El)
	}
	return true
}

func fullCodes(l z.ZogIssueList) string {
	s := ""
	for _, e := range l {
		s += e.Code + "|" + e.Dtype + "|" + e.Path + "|" + e.Message + ";"
	}
	return s
}

func sameFullMaps(a, b z.ZogIssueMap) bool {
	if len(a) != len(b) {
		return false
	}
	for k, l := range a {
		if k == "$first" {
			continue
		}
		if fullCodes(l) != fullCodes(b[k]) {
			return false
		}
	}
	return true
}

// PostTransforms behave alike in both modes: same order, same stop at the first error, same
// resulting value
func c13Post(kind string) {
	if kind == "odd-bytes" {
		// a string that is not made of white space only is a populated leaf, whatever its bytes are
		// (control characters, invalid UTF-8): ALL byte strings of <=2 bytes (3 in thorough), as a
		// top-level value, a struct field, a list item and behind a pointer
		v.MapOrderChoice(false)
		s := v.String("s", wsMax())
		n := 0
		for n < len(s) {
			n++
		}
		v.Assume(n > 0 && !refBlank(s, n))
		type T struct {
			A string
			L []string
			P *string
		}
		sc := z.Struct(z.Schema{"a": z.String().Required().Min(1), "l": z.Slice(z.String().Required()).Min(1), "p": z.Ptr(z.String().Required()).NotNil()})
		var d1, d2 T
		s2 := s
		d1 = T{s, []string{s}, &s2}
		e1 := sc.Validate(&d1)
		e2 := sc.Parse(map[string]any{"a": s, "l": []any{s}, "p": s}, &d2)
		var t1, t2 string
		l1 := z.String().Required().Validate(&s2)
		t1 = s2
		l2 := z.String().Required().Parse(s, &t2)
		v.Cover("agree-clean")
		v.Assert(sameFullMaps(e1, e2) && fullCodes(l1) == fullCodes(l2), "C13:issues-differ-between-modes")
		v.Assert(e1 == nil && len(l1) == 0, "C13:issues-differ-between-modes")
		v.Assert(d2.A == s && len(d2.L) == 1 && d2.L[0] == s && d2.P != nil && *d2.P == s && t1 == t2, "C13:values-differ-between-modes")
		return
	}
	x := v.Int("x")
	v.Assume(v.And(x != 0, v.And(x > -1000000, x < 1000000)))
	failAt := v.Choice("fail-at", 4)          // which of the three transforms returns an error (3 = none)
	asIssue := v.Choice("error-kind", 2) == 1 // a plain error, or a *ZogIssue built from the context
	mk := func(log *string, k int) z.PostTransform {
		return func(p any, ctx z.Ctx) error {
			*log += string(rune('a' + k))
			switch d := p.(type) {
			case *int:
				*d = *d*2 + k
			case *Inner:
				d.X = d.X*2 + k
			case *[]int:
				for i := range *d {
					(*d)[i] = (*d)[i]*2 + k
				}
			}
			if k == failAt {
				if asIssue {
					return ctx.Issue().SetCode("from_transform").SetMessage("m")
				}
				return errFail
			}
			return nil
		}
	}
	var l1, l2 string
	switch kind {
	case "long-slice":
		// the same paths in both modes for every item of a list of 18 and of 102 items
		n := []int{18, 102}[v.Choice("len", 2)]
		at := []int{9, 10, 11, 15, 16, 17, 99, 100, 101}[v.Choice("at", 9)]
		if at >= n {
			at = n - 1
		}
		vals := make([]int, n)
		in := make([]any, n)
		for i := range vals {
			vals[i], in[i] = 50, 50
		}
		vals[at], in[at] = 500, 500
		sc := z.Struct(z.Schema{"qty": z.Slice(z.Int().Required().LT(100))})
		var d1, d2 struct{ Qty []int }
		d1.Qty = vals
		e1 := sc.Validate(&d1)
		e2 := sc.Parse(map[string]any{"qty": in}, &d2)
		v.Cover("agree-issues")
		v.Assert(sameFullMaps(e1, e2), "C13:issues-differ-between-modes")
		v.Assert(len(e1) == 2 && len(e2) == 2 && len(e2["qty["+v.Itoa(at)+"]"]) == 1, "C13:issues-differ-between-modes")
		return
	case "empty-tag":
		// a destination field tagged with the empty string: the same issues (paths included) and
		// values in both modes, at the root and nested
		type in struct {
			Street string `zog:""`
			City   string
		}
		type out struct {
			Nick string `zog:""`
			Home in
		}
		sc := z.Struct(z.Schema{"nick": z.String().Min(5), "home": z.Struct(z.Schema{"street": z.String().Min(5), "city": z.String().Min(5)})})
		d1 := out{Nick: "ab", Home: in{Street: "cd", City: "ef"}}
		var d2 out
		e1 := sc.Validate(&d1)
		e2 := sc.Parse(map[string]any{"": "ab", "home": map[string]any{"": "cd", "city": "ef"}}, &d2)
		v.Cover("agree-issues")
		v.Assert(sameFullMaps(e1, e2), "C13:issues-differ-between-modes")
		v.Assert(d1 == d2, "C13:values-differ-between-modes")
		return
	case "embedded-dest":
		// a destination that embeds a struct (by value): its promoted fields are schema keys
		type Base struct {
			ID   int
			Name string
		}
		type Rec struct {
			Base
			Age int
		}
		g := v.Int("g")
		sc := z.Struct(z.Schema{"ID": z.Int().GT(g), "name": z.String().Min(2), "age": z.Int().GT(g)})
		d1 := Rec{Base: Base{ID: x, Name: "n"}, Age: x}
		var d2 Rec
		e1 := sc.Validate(&d1)
		e2 := sc.Parse(map[string]any{"ID": x, "name": "n", "age": x}, &d2)
		if e1 == nil {
			v.Cover("agree-clean")
		} else {
			v.Cover("agree-issues")
		}
		v.Assert(sameFullMaps(e1, e2), "C13:issues-differ-between-modes")
		v.Assert(d1 == d2, "C13:values-differ-between-modes")
		return
	case "custom-writes":
		// a custom schema function that writes through its pointer (canonicalising the value):
		// what it wrote is the resulting value in both modes, wherever the custom node sits
		g := v.Int("g")
		canon := func() *z.Custom[int] {
			return z.CustomFunc(func(p *int, ctx z.Ctx) bool { *p = *p + 1; return *p > g })
		}
		type D struct {
			C  int
			L  []int
			PC *int
		}
		sc := z.Struct(z.Schema{"c": canon(), "l": z.Slice(canon()), "pC": z.Ptr(canon())})
		px := x
		d1 := D{C: x, L: []int{x, x}, PC: &px}
		var d2 D
		e1 := sc.Validate(&d1)
		e2 := sc.Parse(map[string]any{"c": x, "l": []any{x, x}, "pC": x}, &d2)
		if e1 == nil {
			v.Cover("agree-clean")
		} else {
			v.Cover("agree-issues")
		}
		v.Assert(sameFullMaps(e1, e2), "C13:issues-differ-between-modes")
		v.Assert(d1.C == x+1 && d2.C == d1.C && len(d2.L) == 2 && d2.L[0] == d1.L[0] && d2.L[1] == d1.L[1] && d1.L[1] == x+1, "C13:values-differ-between-modes")
		v.Assert(d2.PC != nil && *d2.PC == *d1.PC && *d1.PC == x+1, "C13:values-differ-between-modes")
		t1, t2 := x, 0
		l1s := canon().Validate(&t1)
		l2s := canon().Parse(x, &t2)
		v.Assert(fullCodes(l1s) == fullCodes(l2s) && t1 == t2 && t1 == x+1, "C13:values-differ-between-modes")
		return
	case "prim":
		build := func(log *string) *z.NumberSchema[int] {
			return z.Int().PostTransform(mk(log, 0)).PostTransform(mk(log, 1)).PostTransform(mk(log, 2))
		}
		d1, d2 := x, 0
		e1 := build(&l1).Validate(&d1)
		e2 := build(&l2).Parse(x, &d2)
		v.Assert(l1 == l2, "C13:callbacks-differ-between-modes")
		v.Assert(fullCodes(e1) == fullCodes(e2), "C13:issues-differ-between-modes")
		v.Assert(d1 == d2, "C13:values-differ-between-modes")
	case "struct":
		build := func(log *string) *z.StructSchema {
			return z.Struct(z.Schema{"x": z.Int().PostTransform(mk(log, 0)), "y": z.String()}).PostTransform(mk(log, 1)).PostTransform(mk(log, 2))
		}
		d1, d2 := Inner{x, "s"}, Inner{}
		v.MapOrderChoice(false)
		e1 := build(&l1).Validate(&d1)
		e2 := build(&l2).Parse(map[string]any{"x": x, "y": "s"}, &d2)
		v.Assert(l1 == l2, "C13:callbacks-differ-between-modes")
		v.Assert(sameFullMaps(e1, e2), "C13:issues-differ-between-modes")
		v.Assert(d1.X == d2.X && d1.Y == d2.Y, "C13:values-differ-between-modes")
	case "catch":
		// a caught value is transformed (or not) alike in both modes
		g := v.Int("g")
		build := func(log *string) *z.NumberSchema[int] {
			return z.Int().GT(g).Catch(21).PostTransform(mk(log, 0)).PostTransform(mk(log, 1))
		}
		d1, d2 := x, 0
		e1 := build(&l1).Validate(&d1)
		e2 := build(&l2).Parse(x, &d2)
		v.Assert(l1 == l2, "C13:callbacks-differ-between-modes")
		v.Assert(fullCodes(e1) == fullCodes(e2), "C13:issues-differ-between-modes")
		v.Assert(d1 == d2, "C13:values-differ-between-modes")
	case "slice-tests":
		// whole-slice tests see the same items in both modes, item transforms included
		k := v.Int("k")
		needle := v.Int("needle")
		build := func(log *string) *z.SliceSchema {
			return z.Slice(z.Int().PostTransform(mk(log, 0))).Max(k).Contains(needle)
		}
		d1 := []int{x, x + 1}
		var d2 []int
		e1 := build(&l1).Validate(&d1)
		e2 := build(&l2).Parse([]any{x, x + 1}, &d2)
		v.Assert(l1 == l2, "C13:callbacks-differ-between-modes")
		v.Assert(sameFullMaps(e1, e2), "C13:issues-differ-between-modes")
		v.Assert(eqIntSlices(d1, d2), "C13:values-differ-between-modes")
	case "slice":
		build := func(log *string) *z.SliceSchema {
			return z.Slice(z.Int().PostTransform(mk(log, 0))).PostTransform(mk(log, 1)).PostTransform(mk(log, 2))
		}
		d1 := []int{x, x + 1}
		var d2 []int
		e1 := build(&l1).Validate(&d1)
		e2 := build(&l2).Parse([]any{x, x + 1}, &d2)
		v.Assert(l1 == l2, "C13:callbacks-differ-between-modes")
		v.Assert(sameFullMaps(e1, e2), "C13:issues-differ-between-modes")
		v.Assert(eqIntSlices(d1, d2), "C13:values-differ-between-modes")
	}
	v.Cover("agree-issues")
	v.Cover("agree-clean")
}

var errFail = errors.New("transform failed")

func C13_Run(job string) {
	if a, b, _, _ := split3(job); a == "post" {
		c13Post(b)
		return
	}
	sh := buildShape("validate/" + job)
	v.Assume(populated(sh.root()))
	// pointers are non-nil in a fully populated value
	sh.mode = Validate
	forcePtrNonNil = true
	o1 := runReal(sh)
	forcePtrNonNil = false
	sh.mode = Parse
	o2 := runReal(sh)
	if o1.empty() && o2.empty() {
		v.Cover("agree-clean")
	} else if !o1.empty() && !o2.empty() {
		v.Cover("agree-issues")
	}
	if o1.isM {
		v.Assert(sameFullMaps(o1.m, o2.m), "C13:issues-differ-between-modes")
		v.Assert(destEqualExcept(&o1.dest, &o2.dest, ""), "C13:values-differ-between-modes")
		v.Assert(eqIntSlices(o1.dSl, o2.dSl), "C13:values-differ-between-modes")
	} else {
		v.Assert(fullCodes(o1.list) == fullCodes(o2.list), "C13:issues-differ-between-modes")
		v.Assert(v.And(o1.dInt == o2.dInt, v.And(o1.dStr == o2.dStr, o1.dB == o2.dB)), "C13:values-differ-between-modes")
		v.Assert(v.And(v.SameBits(o1.dF, o2.dF), o1.dT.Equal(o2.dT)), "C13:values-differ-between-modes")
	}
}

var forcePtrNonNil bool
