package h

import (
	"time"

	z "github.com/Oudwins/zog"
	v "github.com/Oudwins/zog/zzverif"
)

// ---- the shape family shared by C01, C02, C05, C09, C13 ---------------------------------
//
// A job is "<mode>/<template>/<variant>". Decorations of the focus node (Required, Default,
// Catch) and input classes are engine-enumerated choices; every value is symbolic.

var allDeco = 8

// set by C09 (self-composition squares the number of paths)
var smallT5 bool

var focusClasses = []int{cMissing, cVal, cBad}

// deeper bounds in the thorough tier
func focusNT() int  { return 1 + v.Tier() } // tests on the focus node: GT | GT and LT
func sliceMax() int { return 2 + v.Tier() } // elements per slice
func focusCls() []int {
	if v.Tier() == 1 {
		return []int{cMissing, cNil, cBlank, cVal, cBad, cAlt}
	}
	return focusClasses
}

var fullClasses = []int{cMissing, cNil, cBlank, cVal, cBad, cAlt}

// the focus decoration (bits: 1 Required, 2 Default, 4 Catch) is part of the job name so that
// the work spreads over the workers
func shapeJobs() []string {
	var out []string
	for _, m := range []string{"parse", "validate"} {
		for d := 0; d < allDeco; d++ {
			ds := "/d" + string(rune('0'+d))
			for _, k := range []string{"int", "str", "bool", "float", "time"} {
				out = append(out, m+"/T1/"+k+ds)
			}
			for _, sib := range []string{"int", "str", "slice", "struct", "ptr", "custom", "catchint", "stest", "ptrfocus", "float", "time"} {
				out = append(out, m+"/T2/"+sib+ds)
			}
			out = append(out, m+"/T3/int"+ds, m+"/T4/nested"+ds, m+"/T5/slicestruct"+ds, m+"/T6/ptrstruct"+ds)
			for _, k := range []string{"str", "bool", "float", "time"} {
				out = append(out, m+"/T8/"+k+ds) // a focus node of another kind next to a required Int
			}
			if v.Tier() == 1 {
				out = append(out, m+"/T7/three"+ds) // three fields: six visit orders
			}
		}
	}
	return out
}

func jobDeco(d string) int { return int(d[1] - '0') }

type shape struct {
	mode int
	prim Node // top-level primitive
	top  *StructNode
	sl   *SliceNode
}

func classesFor(mode int, cs []int) []int {
	if mode == Validate {
		return []int{cVal}
	}
	return cs
}

func buildShape(job string) *shape {
	ms, tmpl, variant, ds := split3(job)
	fdeco := jobDeco(ds)
	sh := &shape{mode: Parse}
	if ms == "validate" {
		sh.mode = Validate
	}
	mode := sh.mode
	switch tmpl {
	case "T1":
		deco := fdeco
		switch variant {
		case "int":
			sh.prim = newInt("p", deco, 2, classesFor(mode, fullClasses))
		case "str":
			sh.prim = newStr("p", deco, 2, classesFor(mode, []int{cMissing, cNil, cBlank, cVal, cAlt}))
		case "bool":
			sh.prim = newBool("p", deco, 1, classesFor(mode, fullClasses))
		case "float":
			sh.prim = newFloat("p", deco, 2, classesFor(mode, fullClasses))
		case "time":
			sh.prim = newTime("p", deco, 2, classesFor(mode, fullClasses), mode)
		}
	case "T2":
		focus := newInt("a", fdeco, focusNT(), classesFor(mode, focusCls()))
		keys := []string{"i"}
		kids := []Node{focus}
		tcode := ""
		if variant == "ptrfocus" {
			// the focus node sits behind a pointer: struct{ pI: Ptr(focus), j: Int.Required }
			keys = []string{"pI"}
			kids = []Node{newPtr("a", v.Choice("notnil", 2) == 1, focus)}
		}
		switch variant {
		case "ptrfocus":
			keys, kids = append(keys, "j"), append(kids, newInt("b", dReq, 1, classesFor(mode, []int{cMissing, cVal})))
		case "int":
			keys, kids = append(keys, "j"), append(kids, newInt("b", dReq, 1, classesFor(mode, []int{cMissing, cVal})))
		case "catchint":
			keys, kids = append(keys, "j"), append(kids, newInt("b", dCatch|dReq, 1, classesFor(mode, []int{cMissing, cVal})))
		case "str":
			keys, kids = append(keys, "s"), append(kids, newStr("b", dReq, 1, classesFor(mode, []int{cMissing, cVal})))
		case "float":
			keys, kids = append(keys, "f"), append(kids, newFloat("b", dReq, 1, classesFor(mode, []int{cMissing, cVal, cBad})))
		case "time":
			keys, kids = append(keys, "w"), append(kids, newTime("b", dReq, 1, classesFor(mode, []int{cMissing, cVal, cBad}), mode))
		case "slice":
			el := newIntDeco("b.el", 0, 1)
			keys, kids = append(keys, "lI"), append(kids, newSlice("b", dReq, 1, el, classesFor(mode, []int{cMissing, cVal}), classesFor(mode, []int{cVal, cBad}), sliceMax()))
		case "struct":
			in := newStruct("b", []string{"x", "y"}, []Node{newInt("b.x", dReq, 1, classesFor(mode, []int{cMissing, cVal})), newStr("b.y", 0, 1, classesFor(mode, []int{cMissing, cVal}))}, classesFor(mode, []int{cVal, cMissing, cBad}))
			keys, kids = append(keys, "n"), append(kids, in)
		case "ptr":
			keys, kids = append(keys, "pI"), append(kids, newPtr("b", true, newInt("b.el", 0, 1, classesFor(mode, []int{cMissing, cVal}))))
		case "custom":
			keys, kids = append(keys, "c"), append(kids, newCustom("b", classesFor(mode, []int{cVal, cBad})))
		case "stest":
			keys, kids = append(keys, "s"), append(kids, newStr("b", 0, 1, classesFor(mode, []int{cMissing, cVal})))
			tcode = "stest"
		}
		sh.top = newStruct("top", keys, kids, []int{cVal})
		if tcode != "" {
			sh.top.TCode, sh.top.TX = tcode, v.Int("top.tx")
		}
	case "T8":
		var focus Node
		key := ""
		switch variant {
		case "str":
			focus, key = newStr("a", fdeco, focusNT(), classesFor(mode, []int{cMissing, cBlank, cVal, cAlt})), "s"
		case "bool":
			focus, key = newBool("a", fdeco, 1, classesFor(mode, focusCls())), "b"
		case "float":
			focus, key = newFloat("a", fdeco, focusNT(), classesFor(mode, focusCls())), "f"
		case "time":
			focus, key = newTime("a", fdeco, focusNT(), classesFor(mode, focusCls()), mode), "w"
		}
		sib := newInt("b", dReq, 1, classesFor(mode, []int{cMissing, cVal}))
		sh.top = newStruct("top", []string{key, "j"}, []Node{focus, sib}, []int{cVal})
	case "T3":
		el := newIntDeco("e", fdeco, 1)
		sh.sl = newSlice("sl", v.Choice("sdeco", 4)&(dReq|dDef), 1, el, classesFor(mode, []int{cMissing, cVal, cAlt}), classesFor(mode, []int{cVal, cBad, cNil}), sliceMax())
	case "T5":
		// struct{ lN: Slice(Struct{x: focus, y: String}) (<=2 elements), j: Int.Required }
		mkEl := func(i int) *StructNode {
			nm := "e" + string(rune('0'+i))
			return newStruct(nm, []string{"x", "y"}, []Node{newInt(nm+".x", fdeco, 1, classesFor(mode, focusClasses)), newStr(nm+".y", 0, 0, []int{cVal})}, classesFor(mode, []int{cVal, cBad}))
		}
		proto := newStruct("proto", []string{"x", "y"}, []Node{newIntDeco("proto.x", fdeco, 1), &StrNode{name: "proto.y", NT: 0, pre: strPre}}, []int{cVal})
		nEl := 1 + v.Tier()
		if smallT5 && fdeco&dDef != 0 {
			nEl = 1 // C09 runs every path twice: two elements with defaulting focus nodes exceed the 30 min budget of a job
		}
		ss := newSliceStruct("sl", v.Choice("sreq", 2) == 1, 1, classesFor(mode, []int{cMissing, cVal}), nEl, mkEl).withProto(proto)
		shareDeco(proto, ss.Els)
		sib := newInt("b", dReq, 1, classesFor(mode, []int{cMissing, cVal}))
		sh.top = newStruct("top", []string{"lN", "j"}, []Node{ss, sib}, []int{cVal})
	case "T6":
		// struct{ pN: Ptr(Struct{x: focus, y: String.Required}), j: Int.Required }
		el := newStruct("in", []string{"x", "y"}, []Node{newInt("in.x", fdeco, 1, classesFor(mode, focusClasses)), newStr("in.y", dReq, 1, classesFor(mode, []int{cMissing, cVal}))}, classesFor(mode, []int{cVal, cMissing, cNil, cBad}))
		ps := newPtrStruct("p", v.Choice("notnil", 2) == 1, el)
		sib := newInt("b", dReq, 1, classesFor(mode, []int{cMissing, cVal}))
		sh.top = newStruct("top", []string{"pN", "j"}, []Node{ps, sib}, []int{cVal})
	case "T7":
		a := newInt("a", fdeco, 1, classesFor(mode, focusClasses))
		b := newStr("b", dReq, 1, classesFor(mode, []int{cMissing, cVal}))
		el := newIntDeco("c.el", 0, 0)
		c := newSlice("c", dReq, 1, el, classesFor(mode, []int{cMissing, cVal}), []int{cVal}, 1)
		sh.top = newStruct("top", []string{"i", "s", "lI"}, []Node{a, b, c}, []int{cVal})
	case "T4":
		focus := newInt("a", fdeco, 1, classesFor(mode, focusClasses))
		in := newStruct("in", []string{"x", "y"}, []Node{focus, newStr("in.y", dReq, 1, classesFor(mode, []int{cMissing, cVal}))}, classesFor(mode, []int{cVal, cNil}))
		sib := newInt("b", dReq, 1, classesFor(mode, []int{cMissing, cVal}))
		in.TCode, in.TX = "itest", v.Int("in.tx") // a struct-level test on the nested struct
		sh.top = newStruct("top", []string{"n", "j"}, []Node{in, sib}, []int{cVal})
	}
	return sh
}

type outcome struct {
	list z.ZogIssueList
	m    z.ZogIssueMap
	isM  bool
	dInt int
	dStr string
	dB   bool
	dF   float64
	dT   time.Time
	dest Dest
	dSl  []int
}

func (o *outcome) empty() bool {
	if o.isM {
		return o.m == nil
	}
	return len(o.list) == 0
}

// runReal runs the real zog on the shape's input.
func runReal(sh *shape) *outcome {
	o := &outcome{}
	switch {
	case sh.prim != nil:
		in, _ := sh.prim.Input()
		switch n := sh.prim.(type) {
		case *IntNode:
			n.Prep(sh.mode, &o.dInt)
			if sh.mode == Parse {
				o.list = n.schema().Parse(in, &o.dInt)
			} else {
				o.list = n.schema().Validate(&o.dInt)
			}
		case *StrNode:
			n.Prep(sh.mode, &o.dStr)
			if sh.mode == Parse {
				o.list = n.schema().Parse(in, &o.dStr)
			} else {
				o.list = n.schema().Validate(&o.dStr)
			}
		case *BoolNode:
			n.Prep(sh.mode, &o.dB)
			s := n.Schema().(*z.BoolSchema[bool])
			if sh.mode == Parse {
				o.list = s.Parse(in, &o.dB)
			} else {
				o.list = s.Validate(&o.dB)
			}
		case *FloatNode:
			n.Prep(sh.mode, &o.dF)
			if sh.mode == Parse {
				o.list = n.schema().Parse(in, &o.dF)
			} else {
				o.list = n.schema().Validate(&o.dF)
			}
		case *TimeNode:
			n.Prep(sh.mode, &o.dT)
			if sh.mode == Parse {
				o.list = n.schema().Parse(in, &o.dT)
			} else {
				o.list = n.schema().Validate(&o.dT)
			}
		}
	case sh.top != nil:
		o.isM = true
		o.dest.U = 99
		sh.top.Prep(sh.mode, &o.dest)
		if sh.mode == Parse {
			in, _ := sh.top.Input()
			o.m = sh.top.schema().Parse(in, &o.dest)
		} else {
			o.m = sh.top.schema().Validate(&o.dest)
		}
	case sh.sl != nil:
		o.isM = true
		sh.sl.Prep(sh.mode, &o.dSl)
		if sh.mode == Parse {
			in, _ := sh.sl.Input()
			o.m = sh.sl.schema().Parse(in, &o.dSl)
		} else {
			o.m = sh.sl.schema().Validate(&o.dSl)
		}
	}
	return o
}

func (sh *shape) root() Node {
	switch {
	case sh.prim != nil:
		return sh.prim
	case sh.top != nil:
		return sh.top
	}
	return sh.sl
}

func (sh *shape) destPtr(o *outcome) any {
	switch n := sh.root().(type) {
	case *IntNode:
		return &o.dInt
	case *StrNode:
		return &o.dStr
	case *BoolNode:
		return &o.dB
	case *FloatNode:
		return &o.dF
	case *TimeNode:
		return &o.dT
	case *StructNode:
		_ = n
		return &o.dest
	}
	return &o.dSl
}

// reference issues for the whole shape (needs the final destination for struct-level tests)
func (sh *shape) want(o *outcome) []Iss {
	w := sh.root().Ref(sh.mode, "")
	if sh.top != nil {
		for i, k := range sh.top.Keys {
			if in, ok := sh.top.Kids[i].(*StructNode); ok && in.TCode != "" {
				w = append(w, in.structTestIss(k, destField(&o.dest, k))...)
			}
		}
		w = append(w, sh.top.structTestIss("", &o.dest)...)
	}
	return w
}

func sameIssues(o *outcome, want []Iss) bool {
	if o.isM {
		return sameIssuesMap(o.m, want)
	}
	return sameIssuesList(o.list, want)
}

// shareDeco: the elements of a slice share one element schema, so every element description
// takes the decoration and test parameters of the prototype (inputs stay per element)
func shareDeco(proto *StructNode, els []*StructNode) {
	px := proto.Kids[0].(*IntNode)
	py := proto.Kids[1].(*StrNode)
	if py.NT >= 1 && py.M == 0 {
		py.M = v.Int("proto.y.min")
	}
	for _, e := range els {
		x := e.Kids[0].(*IntNode)
		x.Req, x.HasDef, x.HasCatch, x.Def, x.Catch, x.G, x.L, x.NT = px.Req, px.HasDef, px.HasCatch, px.Def, px.Catch, px.G, px.L, px.NT
		y := e.Kids[1].(*StrNode)
		y.Req, y.HasDef, y.HasCatch, y.NT, y.M, y.X = py.Req, py.HasDef, py.HasCatch, py.NT, py.M, py.X
	}
}
