package h

import (
	"encoding/json"
	"strings"
	"time"

	z "github.com/Oudwins/zog"
	"github.com/Oudwins/zog/parsers/zjson"
	"github.com/Oudwins/zog/zenv"
	"github.com/Oudwins/zog/zhttp"
	v "github.com/Oudwins/zog/zzverif"
)

func init() { Registry["C06"] = C06_Run }

// C06 — no input data can make Parse panic.
// Matched (schema, destination) pairs; the input is drawn from a catalogue of dynamic types
// (engine-enumerated) with symbolic leaves (floats incl. NaN/Inf, arbitrary bytes, any int).
// The assertion is that Parse returns: a panic that escapes the call is the violation.

type c06M map[string]any
type c06Str string
type c06Int int
type c06In struct {
	A int
	B string
	N c06Inner
	L []int
	P *int
}
type c06Inner struct{ X int }

// value-receiver String/Error methods: calling them through a nil pointer panics (fmt recovers)
type c06Named struct{ N int }

func (n c06Named) String() string { return "named" }

type c06Err struct{ N int }

func (e c06Err) Error() string { return "err" }
type c06Unexp struct {
	a int
	B string
}
type c06Dest struct {
	A                                           int
	B                                           string
	N                                           c06Inner
	L                                           []int
	P                                           *int
	S                                           []c06Inner
	Q                                           *c06Inner
	AVeryLongFieldNameThatExceedsThirtyTwoBytes int
}

func c06Schema() *z.StructSchema {
	return z.Struct(z.Schema{
		"a": z.Int(),
		"b": z.String().Required(),
		"n": z.Struct(z.Schema{"x": z.Int().Required()}),
		"l": z.Slice(z.Int()),
		"p": z.Ptr(z.Int()),
		"s": z.Slice(z.Struct(z.Schema{"x": z.Int()})),
		"q": z.Ptr(z.Struct(z.Schema{"x": z.Int()})),
	})
}

const c06NVals = 49

// c06Value: the k-th entry of the dynamic-type catalogue
func c06Value(k int) any {
	f := v.Float64("f")
	s := v.String("s", 1+v.Tier()) // one arbitrary byte already gives invalid UTF-8; two in thorough
	n := v.Int("n")
	var nilPtr *c06In
	var nilMap map[string]any
	var nilSl []any
	np := &n
	npp := &np
	switch k {
	case 0:
		return nil
	case 1:
		return s
	case 2:
		return n
	case 3:
		return f
	case 4:
		return float32(f)
	case 5:
		return n > 0
	case 6:
		return []any{n, s, f, nil}
	case 7:
		return []int{n}
	case 8:
		return map[string]any{}
	case 9:
		return map[string]any{"a": n, "b": s, "n": map[string]any{"x": f}, "l": []any{s}, "p": f, "s": []any{map[string]any{"x": n}, 5, nil}, "q": map[string]any{}}
	case 10:
		return map[string]string{"a": s, "b": s}
	case 11:
		return map[string]int{"a": n}
	case 12:
		return c06M{"a": n, "b": s}
	case 13:
		return map[int]any{1: n}
	case 14:
		return map[string][]int{"l": {n}}
	case 15:
		return c06In{A: n, B: s, N: c06Inner{X: n}, L: []int{n}, P: np}
	case 16:
		return &c06In{A: n, B: s}
	case 17:
		return c06Unexp{a: n, B: s}
	case 18:
		return nilPtr
	case 19:
		return nilMap
	case 20:
		return nilSl
	case 21:
		return np
	case 22:
		return npp
	case 23:
		return &npp
	case 24:
		return time.Unix(int64(n&0xffff), 0).UTC()
	case 25:
		return map[string]any{"a": nilPtr, "b": nilMap, "n": nilPtr, "l": nilSl, "p": nilPtr, "s": nilSl, "q": nilPtr}
	case 26:
		return map[string]any{"a": map[string]any{"x": 1}, "b": []any{s}, "n": n, "l": f, "p": []any{n}, "s": s, "q": n}
	case 27:
		return map[string]any{"n": c06Inner{X: n}, "q": &c06Inner{X: n}, "s": []c06Inner{{X: n}}, "l": []int{n}, "p": np}
	case 28:
		return map[string]any{"n": c06Unexp{a: 1}, "q": c06M{"x": n}, "s": []any{c06M{"x": n}}, "a": np, "b": &s}
	case 29:
		return map[string]float64{"a": f, "p": f}
	case 30:
		return map[string]bool{"a": n > 0}
	case 31:
		return struct{}{}
	case 32:
		return [2]int{n, n}
	case 34:
		var inner *c06In
		return &inner // non-nil pointer to a nil pointer
	case 35:
		var inner *c06In
		pi := &inner
		return &pi
	case 36:
		var m map[string]any
		return &m
	case 37:
		var inner *int
		var innerS *c06Inner
		return map[string]any{"a": &inner, "p": &inner, "n": &innerS, "q": &innerS, "b": uint16(n), "l": []uint32{uint32(n)}}
	case 38:
		return map[string]c06Str{"b": c06Str(s), "a": "1"} // named element type
	case 39:
		return map[c06Str]any{"a": n, "b": s} // named key type
	case 40:
		return map[string]c06Int{"a": c06Int(n)}
	case 41:
		return map[c06Str]c06Str{"b": "x"}
	case 42:
		return map[string]any{"n": map[c06Str]any{"x": n}, "q": map[string]c06Int{"x": 1}, "s": []any{map[string]c06Str{"x": "1"}}, "b": c06Str(s), "a": c06Int(n)}
	case 43:
		return map[string]error{"a": nil} // named interface element type
	case 44:
		return map[string]interface{ String() string }{"a": nil}
	case 45:
		var p *c06Named
		return p // typed-nil fmt.Stringer
	case 46:
		var p *c06Err
		return p // typed-nil error
	case 47:
		var p *c06Named
		var e *c06Err
		var t *time.Time
		return map[string]any{"a": p, "b": p, "n": e, "l": []any{p, e, t}, "p": t, "s": []any{p}, "q": e}
	case 48:
		var t *time.Time
		return t
	case 33:
		return map[string]any{"a": uint8(n), "b": []byte(s), "l": [1]int{n}, "p": uint64(n), "n": map[string]int{"x": n}}
	}
	panic("c06Value")
}

var c06JSON = []string{`{}`, `null`, `[]`, `[1,2]`, `1`, `"s"`, `true`, ``, `{`, `{"a":1,"b":"x","n":{"x":2},"l":[1,"2"],"p":3}`,
	`{"a":{"z":1},"b":[1],"n":5,"l":{"k":1},"p":"zz","s":[{"x":1},2,null],"q":null}`, `{"a":1e400}`, `{"a":1} trailing`, `{"a":null,"b":null,"n":null}`,
	`{"n":{}, "q":{}}`, `{"b":"\ud800"}`}

func C06_Jobs() []string {
	var out []string
	for k := 0; k < c06NVals; k++ {
		ks := string(rune('0'+k/10)) + string(rune('0'+k%10))
		out = append(out, "struct/"+ks, "prim/"+ks, "slice/"+ks, "ptr/"+ks)
	}
	out = append(out, "json", "json-ptr", "env", "longkey", "validate-nil-ptrs", "two-dest-types", "long-slices", "struct-input", "odd-tags/parse", "odd-tags/validate", "nil-body", "iface-custom", "uncomparable-contains", "time-strings")
	return out
}
func C06_Covers() []string { return []string{"returned"} }

func jobNum(s string) int { return int(s[0]-'0')*10 + int(s[1]-'0') }

func C06_Run(job string) {
	a, b, _, _ := split3(job)
	switch a {
	case "struct":
		var d c06Dest
		c06Schema().Parse(c06Value(jobNum(b)), &d)
	case "prim":
		x := c06Value(jobNum(b))
		// one schema per path (engine-enumerated), so that the paths add up instead of multiplying
		switch v.Choice("schema", 10) {
		case 0:
			var i int
			z.Int().Parse(x, &i)
		case 1:
			var i32 int32
			z.Int32().Parse(x, &i32)
		case 2:
			var f float64
			z.Float64().Parse(x, &f)
		case 3:
			var f32 float32
			z.Float32().Parse(x, &f32)
		case 4:
			var s string
			z.String().Min(1).Parse(x, &s)
		case 5:
			var bb bool
			z.Bool().Parse(x, &bb)
		case 6:
			var t time.Time
			z.Time().Parse(x, &t)
		case 7:
			var c int
			z.CustomFunc(func(p *int, ctx z.Ctx) bool { return *p > 0 }).Parse(x, &c)
		case 8:
			var pp string
			if s, ok := x.(string); ok {
				z.Preprocess(func(data string, ctx z.Ctx) (string, error) { return data + "!", nil }, z.String()).Parse(s, &pp)
			}
		case 9:
			var i64 int64
			z.Int64().Parse(x, &i64)
		}
	case "slice":
		x := c06Value(jobNum(b))
		switch v.Choice("schema", 3) {
		case 0:
			var d []c06Inner
			z.Slice(z.Struct(z.Schema{"x": z.Int()})).Parse(x, &d)
		case 1:
			var d2 []int
			z.Slice(z.Int()).Required().Parse(x, &d2)
		case 2:
			var d3 [][]int
			z.Slice(z.Slice(z.Int())).Parse(x, &d3)
		}
	case "ptr":
		x := c06Value(jobNum(b))
		switch v.Choice("schema", 3) {
		case 0:
			var d *c06Dest
			z.Ptr(c06Schema()).Parse(x, &d)
		case 1:
			var d2 *int
			z.Ptr(z.Int()).NotNil().Parse(x, &d2)
		case 2:
			var d3 **int
			z.Ptr(z.Ptr(z.Int())).Parse(x, &d3)
		}
	case "json":
		doc := c06JSON[v.Choice("doc", len(c06JSON))]
		var d c06Dest
		c06Schema().Parse(zjson.Decode(strings.NewReader(doc)), &d)
	case "json-ptr":
		doc := c06JSON[v.Choice("doc", len(c06JSON))]
		var d *c06Dest
		z.Ptr(c06Schema()).Parse(zjson.Decode(strings.NewReader(doc)), &d)
	case "env":
		var d struct {
			A int
			B string
			N c06Inner
		}
		z.Struct(z.Schema{"a": z.Int(), "b": z.String().Required(), "n": z.Struct(z.Schema{"x": z.Int()})}).Parse(zenv.NewDataProvider(), &d)
	case "longkey":
		var d c06Dest
		x := v.Int("x")
		errs := z.Struct(z.Schema{"aVeryLongFieldNameThatExceedsThirtyTwoBytes": z.Int()}).Parse(map[string]any{"aVeryLongFieldNameThatExceedsThirtyTwoBytes": x}, &d)
		v.Assert(errs == nil && d.AVeryLongFieldNameThatExceedsThirtyTwoBytes == x, "C06:long-key-value")
		errs = z.Struct(z.Schema{"aVeryLongFieldNameThatExceedsThirtyTwoBytes": z.Int()}).Validate(&d)
		v.Assert(errs == nil, "C06:long-key-validate")
	case "two-dest-types":
		// one schema value, destination types with different layouts, in both orders
		type T1 struct {
			A int
			B string
			C []int
		}
		type T2 struct {
			C []int
			B string
			X float64
			A int
		}
		s := z.Struct(z.Schema{"a": z.Int(), "b": z.String(), "c": z.Slice(z.Int())})
		in := map[string]any{"a": v.Int("n"), "b": "s", "c": []any{1}}
		var d1 T1
		var d2 T2
		if v.Choice("order", 2) == 0 {
			s.Parse(in, &d1)
			s.Parse(in, &d2)
			s.Validate(&d1)
			s.Validate(&d2)
		} else {
			s.Validate(&d2)
			s.Parse(in, &d2)
			s.Parse(in, &d1)
			s.Validate(&d1)
		}
	case "long-slices":
		// inputs far beyond the sizes used elsewhere
		n := []int{9, 10, 11, 63, 64, 65, 66, 127, 128, 129, 300}[v.Choice("len", 11)]
		in := make([]any, n)
		for i := range in {
			in[i] = i
		}
		var d []int
		errs := z.Slice(z.Int().LT(5)).Parse(in, &d)
		v.Assert(len(d) == n && (n <= 5 || len(errs) == n-5+1), "C06:long-slice-result")
		errs = z.Slice(z.Int().LT(5)).Validate(&d)
		v.Assert(n <= 5 || len(errs) == n-5+1+v.B2I(false), "C06:long-slice-result")
		var ds struct{ L [][]int }
		z.Struct(z.Schema{"l": z.Slice(z.Slice(z.Int()))}).Parse(map[string]any{"l": []any{in, in}}, &ds)
	case "iface-custom":
		// custom schemas over interface types, with inputs that do and do not satisfy them
		k := jobNumSafe(v.Choice("val", c06NVals))
		x := c06Value(k)
		switch v.Choice("schema", 3) {
		case 0:
			var d interface{ String() string }
			z.CustomFunc(func(p *interface{ String() string }, ctx z.Ctx) bool { return *p != nil }).Parse(x, &d)
		case 1:
			var d error
			z.CustomFunc(func(p *error, ctx z.Ctx) bool { return true }).Parse(x, &d)
		default:
			var ds struct {
				A any
				E error
			}
			z.Struct(z.Schema{"a": z.CustomFunc(func(p *any, ctx z.Ctx) bool { return true }), "e": z.CustomFunc(func(p *error, ctx z.Ctx) bool { return true })}).Parse(x, &ds)
		}
	case "uncomparable-contains":
		// Contains on slices whose elements cannot be compared with == (slices, maps, structs
		// holding them): membership is by deep equality and never panics
		n := v.Int("n")
		var d1 [][]int
		e1 := z.Slice(z.Slice(z.Int())).Contains([]int{1, 2}).Parse([]any{[]any{1, 2}, []any{n}}, &d1)
		v.Assert(e1 == nil, "C06:long-slice-result")
		type rec struct {
			Name string
			Meta any
		}
		var d2 []rec
		z.Slice(z.Struct(z.Schema{"name": z.String(), "meta": z.CustomFunc(func(p *any, ctx z.Ctx) bool { return true })})).
			Contains(rec{Name: "a", Meta: []any{1.0}}).
			Parse(zjsonList(`{"l":[{"name":"a","meta":[1]},{"name":"b","meta":{"k":[2]}},{"name":"a","meta":{"k":1}}]}`), &d2)
		d3 := []map[string]int{{"a": n}}
		z.Slice(z.CustomFunc(func(p *map[string]int, ctx z.Ctx) bool { return true })).Contains(map[string]int{"a": 1}).Validate(&d3)
	case "time-strings":
		// strings of every length up to 12 bytes (arbitrary bytes) into Time schemas, plain and
		// with a layout: a malformed instant is a coercion issue
		// (the length is the enumerated dimension: prefixes of a well-formed and of a malformed text)
		n := v.Choice("len", 22)
		s := []string{"2024-01-01T10:20:30Z!", "xxxxxxxxxxxxxxxxxxxxx", "2024-01-01 10:20:30Z "}[v.Choice("text", 3)][:n]
		var t time.Time
		switch v.Choice("schema", 3) {
		case 0:
			z.Time().Parse(s, &t)
		case 1:
			z.Time(z.Time.Format("2006-01-02")).Parse(s, &t)
		default:
			var d struct{ T time.Time }
			z.Struct(z.Schema{"t": z.Time().Required()}).Parse(map[string]any{"t": s}, &d)
		}
	case "nil-body":
		// a request without a body (http.NewRequest(method, url, nil) leaves Body nil) through
		// every content type and method
		ct := []string{"application/json", "application/x-www-form-urlencoded", "", "text/plain"}[v.Choice("ct", 4)]
		method := []string{"POST", "GET", "PUT", "DELETE"}[v.Choice("method", 4)]
		req := c11Request(method, ct, "", "a=1")
		req.Body = nil
		var d c06Dest
		c06Schema().Parse(zhttp.Request(req), &d)
		var pd *c06Dest
		z.Ptr(c06Schema()).Parse(zhttp.Request(req), &pd)
	case "struct-input":
		// Go structs as input (schema keys name the source fields): embedded structs by value and by
		// (nil) pointer, mismatching field types, interface-typed and pointer-typed fields
		n := v.Int("n")
		str := v.String("s", 1)
		type emb struct {
			A int
			B string
		}
		type viaNilPtr struct {
			*emb
			N c06Inner
		}
		type viaVal struct {
			emb
			L []int
		}
		type mismatch struct {
			A string
			B int
			N int
			L string
			P c06Inner
		}
		type loose struct {
			A any
			B *string
			N any
			L any
			P **int
		}
		np := &n
		var in any
		switch v.Choice("in", 9) {
		case 0:
			in = c06In{A: n, B: str, N: c06Inner{X: n}, L: []int{n}, P: np}
		case 1:
			in = &c06In{A: n, B: str}
		case 2:
			in = viaNilPtr{N: c06Inner{X: n}}
		case 3:
			in = viaNilPtr{emb: &emb{A: n, B: str}}
		case 4:
			in = viaVal{emb: emb{A: n, B: str}, L: []int{n}}
		case 5:
			in = mismatch{A: str, B: n, N: n, L: str}
		case 6:
			in = loose{}
		case 7:
			in = loose{A: str, B: &str, N: map[string]any{"X": str}, L: []any{str, nil}, P: &np}
		case 8:
			in = &viaNilPtr{}
		}
		var d c06In
		z.Struct(z.Schema{"A": z.Int(), "B": z.String().Required(), "N": z.Struct(z.Schema{"X": z.Int().Required()}),
			"L": z.Slice(z.Int()), "P": z.Ptr(z.Int())}).Parse(in, &d)
		// unexported fields spelled like the schema keys: they cannot be read and are simply absent
		type hidden struct {
			a int
			b string
			n c06Inner
			l []int
			p *int
			N int
		}
		h := hidden{a: n, b: str, n: c06Inner{X: n}, l: []int{n}, p: np}
		lower := z.Struct(z.Schema{"a": z.Int(), "b": z.String().Required(), "n": z.Struct(z.Schema{"x": z.Int().Required()}),
			"l": z.Slice(z.Int()), "p": z.Ptr(z.Int())})
		var d2 c06In
		if v.Choice("hidden-by-pointer", 2) == 1 {
			lower.Parse(&h, &d2)
		} else {
			lower.Parse(h, &d2)
		}
	case "odd-tags":
		// struct tags are configuration a destination type may legally carry: empty, punctuation,
		// bracket-led, non-ASCII and very long tag values at every depth, with a failing leaf under each
		type leaf struct {
			E int `zog:""`
			D int `zog:"."`
			K int `zog:"[k"`
			U int `zog:"ключ"`
			J int `json:"" zog:""`
			W int `zog:"a tag that is considerably longer than thirty-two bytes, with spaces"`
		}
		type mid struct {
			In leaf   `zog:""`
			Sl []leaf `zog:"[]"`
			P  *leaf  `zog:"-"`
		}
		type top struct {
			M  mid `zog:""`
			M2 mid
		}
		lf := func() *z.StructSchema {
			return z.Struct(z.Schema{"e": z.Int().GT(5).Required(), "d": z.Int().GT(5).Required(), "k": z.Int().GT(5).Required(),
				"u": z.Int().GT(5).Required(), "j": z.Int().GT(5).Required(), "w": z.Int().GT(5).Required()})
		}
		md := func() *z.StructSchema {
			return z.Struct(z.Schema{"in": lf(), "sl": z.Slice(lf()), "p": z.Ptr(lf())})
		}
		sc := z.Struct(z.Schema{"m": md(), "m2": md()})
		var d top
		v.MapOrderChoice(false) // the visit order is not the subject here (C09)
		if b == "validate" {
			d.M.Sl = []leaf{{}, {E: 1}}
			d.M.P = &leaf{}
			d.M2.Sl = []leaf{{}}
			sc.Validate(&d)
		} else {
			x := v.Int("x")
			lm := map[string]any{"": x, ".": x, "[k": x, "ключ": x}
			mm := map[string]any{"": lm, "[]": []any{lm, map[string]any{}}, "-": lm, "in": lm, "sl": []any{lm}, "p": lm}
			sc.Parse(map[string]any{"": mm, "m2": mm}, &d)
			sc.Parse(map[string]any{}, &d)
		}
	case "validate-nil-ptrs":
		var d c06Dest
		c06Schema().Validate(&d)
	}
	v.Cover("returned")
}

func jobNumSafe(k int) int { return k }

// the list under key "l" of a JSON document, as decoded by encoding/json
func zjsonList(doc string) any {
	var m map[string]any
	json.NewDecoder(strings.NewReader(doc)).Decode(&m)
	return m["l"]
}
