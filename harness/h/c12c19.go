package h

import (
	"errors"
	"time"

	z "github.com/Oudwins/zog"
	"github.com/Oudwins/zog/conf"
	"github.com/Oudwins/zog/zhttp"
	v "github.com/Oudwins/zog/zzverif"
)

func init() {
	Registry["C12"] = C12_Run
	Registry["C19"] = C19_Run
}

// ---------------------------------------------------------------------------------------
// C12 — user callbacks run at the documented times with the node's own value.

type c12In struct {
	X int
	Y string
}
type c12Env string
type c12Num int

// an ordinary error that wraps another one
type c12Wrap struct{ inner error }

func (w *c12Wrap) Error() string { return "wrapped: " + w.inner.Error() }
func (w *c12Wrap) Unwrap() error { return w.inner }

type c12Dest struct {
	A  int
	N  c12In
	L  []int
	LN []c12In
	PN *c12In
	C  int
}

func C12_Jobs() []string { return append(c12_jobs0(), "json-records") }
func c12_jobs0() []string {
	var out []string
	for _, m := range []string{"parse", "validate"} {
		for _, s := range []string{"top-struct", "struct-in-slice", "struct-behind-ptr", "nested-struct", "slice-in-struct", "custom-in-struct", "primitive", "named-primitives", "reentrant"} {
			out = append(out, "arg/"+s+"/"+m)
		}
		out = append(out, "post/order/"+m, "post/gated/"+m, "post/error/"+m, "post/zogissue/"+m, "post/struct/"+m, "post/slice/"+m, "post/error-catch/"+m, "post/wrapped/"+m, "post/item-index/"+m)
	}
	out = append(out, "absent/blank-strings", "preprocess/ok", "preprocess/error", "preprocess/mismatch", "preprocess/in-struct",
		"after-catch/post-error/parse", "after-catch/post-error/validate", "after-catch/preprocess-error/parse", "after-catch/custom/parse", "after-catch/custom/validate", "after-catch/slice-elements/parse")
	return out
}
func C12_Covers() []string { return []string{"callback-ran"} }

func C12_Run(job string) {
	if job == "json-records" {
		jrCheck("C12")
		return
	}
	a, b, c, _ := split3(job)
	k := v.Int("ctxval")
	ctxOK := func(ctx z.Ctx) bool { return v.And(eqAny(ctx.Get("k"), k), ctx.Get("other") == nil) }
	x := v.Int("x")
	isV := c == "validate"
	{
		// an earlier, unrelated execution with other context values: they must not be visible
		var pd int
		z.Int().Parse(1, &pd, z.WithCtxValue("other", 1), z.WithCtxValue("k", "stale"))
	}
	switch a {
	case "arg":
		var d c12Dest
		var gotPtr any
		calls, ctxGood := 0, true
		rec := func(p any, ctx z.Ctx) bool {
			calls++
			gotPtr = p
			ctxGood = v.And(ctxGood, ctxOK(ctx))
			return true
		}
		inner := z.Struct(z.Schema{"x": z.Int(), "y": z.String()}).TestFunc(rec)
		var schema *z.StructSchema
		var in map[string]any
		var want any
		switch b {
		case "top-struct":
			schema = z.Struct(z.Schema{"a": z.Int()}).TestFunc(rec)
			in, want = map[string]any{"a": x}, &d
			d.A = x
		case "nested-struct":
			schema = z.Struct(z.Schema{"n": inner})
			in, want = map[string]any{"n": map[string]any{"x": x, "y": "s"}}, &d.N
			d.N = c12In{x, "s"}
		case "struct-in-slice":
			schema = z.Struct(z.Schema{"lN": z.Slice(inner)})
			in = map[string]any{"lN": []any{map[string]any{"x": x, "y": "s"}}}
			if isV {
				d.LN = []c12In{{x, "s"}}
			}
		case "struct-behind-ptr":
			schema = z.Struct(z.Schema{"pN": z.Ptr(inner)})
			in = map[string]any{"pN": map[string]any{"x": x, "y": "s"}}
			if isV {
				d.PN = &c12In{x, "s"}
			}
		case "slice-in-struct":
			schema = z.Struct(z.Schema{"l": z.Slice(z.Int()).TestFunc(rec)})
			in, want = map[string]any{"l": []any{x}}, &d.L
			if isV {
				d.L = []int{x}
			}
		case "custom-in-struct":
			schema = z.Struct(z.Schema{"c": z.CustomFunc(func(p *int, ctx z.Ctx) bool { return rec(p, ctx) })})
			in, want = map[string]any{"c": x}, &d.C
			d.C = x
		case "reentrant":
			// a callback that itself runs another schema (with other context values): the outer
			// call's context keeps this call's values and its later issues stay in its own result
			inner := func() {
				var tmp int
				z.Int().GT(1000).Parse(1, &tmp, z.WithCtxValue("k", "inner"), z.WithCtxValue("other", 1))
				z.Int().Validate(&tmp, z.WithCtxValue("k", "inner2"))
			}
			boom := errors.New("late")
			sc := z.Struct(z.Schema{"a": z.Int().TestFunc(func(val any, ctx z.Ctx) bool {
				calls++
				inner()
				ctxGood = v.And(ctxGood, ctxOK(ctx))
				return true
			})}).TestFunc(func(p any, ctx z.Ctx) bool {
				calls++
				inner()
				ctxGood = v.And(ctxGood, ctxOK(ctx))
				return true
			}).PostTransform(func(p any, ctx z.Ctx) error {
				calls++
				ctxGood = v.And(ctxGood, ctxOK(ctx))
				return boom
			})
			var rd c12Dest
			var errs z.ZogIssueMap
			v.Assume(x != 0)
			if isV {
				rd.A = x
				errs = sc.Validate(&rd, z.WithCtxValue("k", k))
			} else {
				errs = sc.Parse(map[string]any{"a": x}, &rd, z.WithCtxValue("k", k))
			}
			v.Cover("callback-ran")
			v.Assert(calls == 3, "C12:callback-count")
			v.Assert(ctxGood, "C12:ctx-values")
			v.Assert(len(errs) == 2 && len(errs["$root"]) == 1 && errs["$root"][0].Err == boom, "C12:posttransform-error-not-reported")
			return
		case "named-primitives":
			// schemas of named primitive types: the test receives the node's own (named) value
			var gotS, gotN any
			str := visible("s", 2)
			v.Assume(len(str) > 0 && x != 0)
			ss := &z.StringSchema[c12Env]{}
			z.WithCoercer(func(in any) (any, error) {
				sv, err := conf.DefaultCoercers.String(in)
				if err != nil {
					return nil, err
				}
				return c12Env(sv.(string)), nil
			})(ss)
			ss = ss.TestFunc(func(val any, ctx z.Ctx) bool { calls++; gotS = val; return true })
			ns := &z.NumberSchema[c12Num]{}
			z.WithCoercer(func(in any) (any, error) { return c12Num(in.(int)), nil })(ns)
			ns = ns.TestFunc(func(val any, ctx z.Ctx) bool { calls++; gotN = val; return true })
			var nd struct {
				E c12Env
				N c12Num
				L []c12Env
			}
			sc := z.Struct(z.Schema{"e": ss, "n": ns, "l": z.Slice(ss)})
			if isV {
				nd.E, nd.N, nd.L = c12Env(str), c12Num(x), []c12Env{c12Env(str)}
				sc.Validate(&nd)
			} else {
				sc.Parse(map[string]any{"e": str, "n": x, "l": []any{str}}, &nd)
			}
			v.Cover("callback-ran")
			v.Assert(calls == 3, "C12:callback-count")
			e, okE := gotS.(c12Env)
			n, okN := gotN.(c12Num)
			v.Assert(okE && okN, "C12:primitive-test-did-not-get-the-value")
			v.Assert(okE && okN && string(e) == str && int(n) == x, "C12:primitive-test-did-not-get-the-value")
			return
		case "primitive":
			var gotVal any
			s := z.Int().TestFunc(func(val any, ctx z.Ctx) bool {
				calls++
				gotVal = val
				ctxGood = v.And(ctxGood, ctxOK(ctx))
				return true
			})
			dd := x
			v.Assume(x != 0)
			if isV {
				s.Validate(&dd, z.WithCtxValue("k", k))
			} else {
				s.Parse(x, &dd, z.WithCtxValue("k", k))
			}
			v.Cover("callback-ran")
			v.Assert(calls == 1, "C12:callback-count")
			v.Assert(eqAny(gotVal, x), "C12:primitive-test-did-not-get-the-value")
			v.Assert(ctxGood, "C12:ctx-values")
			return
		}
		var errs z.ZogIssueMap
		if isV {
			errs = schema.Validate(&d, z.WithCtxValue("k", k))
		} else {
			errs = schema.Parse(in, &d, z.WithCtxValue("k", k))
		}
		v.Assert(errs == nil, "C12:unexpected-issues")
		v.Cover("callback-ran")
		v.Assert(calls == 1, "C12:callback-count")
		switch b {
		case "struct-in-slice":
			want = &d.LN[0]
		case "struct-behind-ptr":
			want = d.PN
		}
		v.Assert(gotPtr != nil, "C12:callback-got-nil")
		switch w := want.(type) {
		case *c12Dest:
			g, ok := gotPtr.(*c12Dest)
			v.Assert(ok && g == w, "C12:callback-did-not-get-its-node-pointer")
		case *c12In:
			g, ok := gotPtr.(*c12In)
			v.Assert(ok && g == w, "C12:callback-did-not-get-its-node-pointer")
		case *[]int:
			g, ok := gotPtr.(*[]int)
			v.Assert(ok && g == w, "C12:callback-did-not-get-its-node-pointer")
		case *int:
			g, ok := gotPtr.(*int)
			v.Assert(ok && g == w, "C12:callback-did-not-get-its-node-pointer")
		}
		v.Assert(ctxGood, "C12:ctx-values")
	case "post":
		g := v.Int("g")
		log := ""
		ctxGood := true
		boom := errors.New("boom")
		mk := func(tag string, fail int) z.PostTransform {
			return func(p any, ctx z.Ctx) error {
				log += tag
				ctxGood = v.And(ctxGood, ctxOK(ctx))
				switch fail {
				case 1:
					return boom
				case 2:
					return ctx.Issue().SetCode("from_transform").SetPath("custom.path")
				}
				return nil
			}
		}
		d := x
		v.Assume(x != 0)
		run := func(s *z.NumberSchema[int]) z.ZogIssueList {
			if isV {
				return s.Validate(&d, z.WithCtxValue("k", k))
			}
			return s.Parse(x, &d, z.WithCtxValue("k", k))
		}
		switch b {
		case "order":
			errs := run(z.Int().PostTransform(mk("1", 0)).PostTransform(mk("2", 0)).PostTransform(mk("3", 0)))
			v.Assert(len(errs) == 0 && log == "123", "C12:posttransform-order-or-count")
		case "gated":
			errs := run(z.Int().GT(g).PostTransform(mk("1", 0)))
			if x > g {
				v.Assert(len(errs) == 0 && log == "1", "C12:posttransform-did-not-run-on-success")
			} else {
				v.Assert(len(errs) == 1 && log == "", "C12:posttransform-ran-despite-issue")
			}
		case "error":
			errs := run(z.Int().PostTransform(mk("1", 0)).PostTransform(mk("2", 1)).PostTransform(mk("3", 0)))
			v.Assert(log == "12", "C12:posttransform-not-stopped-by-error")
			v.Assert(len(errs) == 1 && errs[0].Err == boom && errs[0].Path == "", "C12:posttransform-error-not-reported")
		case "error-catch":
			// the first error stops the remaining transforms also on a catching node
			errs := run(z.Int().Catch(7).PostTransform(mk("1", 0)).PostTransform(mk("2", 1)).PostTransform(mk("3", 0)))
			v.Assert(log == "12", "C12:posttransform-not-stopped-by-error")
			_ = errs
		case "item-index":
			// the error of an item's PostTransform is reported at that item's path, for every index
			// of a list of 102 items (one and two and three digits)
			at := []int{0, 9, 10, 11, 15, 16, 99, 100, 101}[v.Choice("at", 9)]
			in := make([]any, 102)
			vals := make([]int, 102)
			for i := range in {
				in[i], vals[i] = i+1, i+1
			}
			el := z.Int().PostTransform(func(p any, ctx z.Ctx) error {
				if *p.(*int) == at+1 {
					return boom
				}
				return nil
			})
			var dl []int
			var el2 z.ZogIssueMap
			var ds struct{ Items []int }
			var es z.ZogIssueMap
			if isV {
				dl = vals
				el2 = z.Slice(el).Validate(&dl)
				ds.Items = vals
				es = z.Struct(z.Schema{"items": z.Slice(el)}).Validate(&ds)
			} else {
				el2 = z.Slice(el).Parse(in, &dl)
				es = z.Struct(z.Schema{"items": z.Slice(el)}).Parse(map[string]any{"items": in}, &ds)
			}
			key := "[" + v.Itoa(at) + "]"
			v.Assert(len(el2) == 2 && len(el2[key]) == 1 && el2[key][0].Err == boom && el2[key][0].Path == key, "C12:posttransform-error-not-reported")
			v.Assert(len(es) == 2 && len(es["items"+key]) == 1 && es["items"+key][0].Path == "items"+key, "C12:posttransform-error-not-reported")
		case "wrapped":
			// an ordinary error whose Unwrap chain contains a ZogIssue is still an ordinary error:
			// reported as an issue wrapping it, at the node's path
			var ret error
			wr := func(p any, ctx z.Ctx) error {
				ret = &c12Wrap{inner: ctx.Issue().SetCode("inner_code").SetPath("inner.path").SetMessage("inner")}
				return ret
			}
			errs := run(z.Int().PostTransform(wr))
			v.Assert(len(errs) == 1 && errs[0].Err == ret && errs[0].Path == "" && errs[0].Code != "inner_code", "C12:posttransform-error-not-reported")
			var sd c12Dest
			sd.A, sd.LN = x, []c12In{{X: x}}
			sch := z.Struct(z.Schema{"a": z.Int(), "lN": z.Slice(z.Struct(z.Schema{"x": z.Int().PostTransform(wr)}))})
			var em z.ZogIssueMap
			if isV {
				em = sch.Validate(&sd)
			} else {
				em = sch.Parse(map[string]any{"a": x, "lN": []any{map[string]any{"x": x}}}, &sd)
			}
			v.Assert(len(em) == 2 && len(em["lN[0].x"]) == 1 && em["lN[0].x"][0].Err == ret && len(em["inner.path"]) == 0 && len(em["$root"]) == 0, "C12:posttransform-error-not-reported")
			if !isV {
				var pd int
				pe := z.Preprocess(func(n int, ctx z.Ctx) (int, error) {
					ret = &c12Wrap{inner: ctx.Issue().SetCode("inner_code").SetPath("inner.path")}
					return 0, ret
				}, z.Int()).Parse(x, &pd)
				v.Assert(len(pe) == 1 && pe[0].Err == ret && pe[0].Path == "", "C12:preprocess-error-not-reported")
			}
		case "zogissue":
			errs := run(z.Int().PostTransform(mk("1", 2)).PostTransform(mk("2", 0)))
			v.Assert(log == "1", "C12:posttransform-not-stopped-by-error")
			v.Assert(len(errs) == 1 && errs[0].Code == "from_transform", "C12:posttransform-issue-not-reported")
			// the same on struct and slice schemas
			var sd c12Dest
			sd.A, sd.L = x, []int{x}
			ss := z.Struct(z.Schema{"a": z.Int()}).PostTransform(mk("s", 2))
			sl := z.Slice(z.Int()).PostTransform(mk("l", 2))
			var em, el z.ZogIssueMap
			var dl []int
			if isV {
				em = ss.Validate(&sd, z.WithCtxValue("k", k))
				dl = []int{x}
				el = sl.Validate(&dl, z.WithCtxValue("k", k))
			} else {
				em = ss.Parse(map[string]any{"a": x}, &sd, z.WithCtxValue("k", k))
				el = sl.Parse([]any{x}, &dl, z.WithCtxValue("k", k))
			}
			v.Assert(len(em["custom.path"]) == 1 && em["custom.path"][0].Code == "from_transform", "C12:posttransform-issue-not-reported")
			v.Assert(len(el["custom.path"]) == 1 && el["custom.path"][0].Code == "from_transform", "C12:posttransform-issue-not-reported")
		case "struct":
			var sd c12Dest
			sd.A, sd.N = x, c12In{x, "s"}
			var got any
			s := z.Struct(z.Schema{"a": z.Int().GT(g), "n": z.Struct(z.Schema{"x": z.Int()}).PostTransform(func(p any, ctx z.Ctx) error {
				log += "n"
				got = p
				return boom
			})}).PostTransform(mk("T", 0))
			var errs z.ZogIssueMap
			if isV {
				errs = s.Validate(&sd, z.WithCtxValue("k", k))
			} else {
				errs = s.Parse(map[string]any{"a": x, "n": map[string]any{"x": x}}, &sd, z.WithCtxValue("k", k))
			}
			// the nested transform runs iff no issue exists when the nested struct finishes; that
			// depends on the visit order only through a's issue, so: a passes => "n" ran and its
			// error is reported at path n and the outer transform is gated off
			if x > g {
				v.Assert(log == "n", "C12:posttransform-order-or-count")
				gp, ok := got.(*c12In)
				v.Assert(ok && gp == &sd.N, "C12:callback-did-not-get-its-node-pointer")
				v.Assert(len(errs["n"]) == 1 && errs["n"][0].Err == boom, "C12:posttransform-error-not-reported")
			} else {
				v.Assert(len(errs["a"]) == 1, "C12:unexpected-issues")
				v.Assert(log == "" || log == "n", "C12:posttransform-ran-despite-issue")
			}
		case "slice":
			var sl []int
			if isV {
				sl = []int{x, x}
			}
			var got any
			s := z.Slice(z.Int().GT(g)).PostTransform(func(p any, ctx z.Ctx) error {
				log += "s"
				got = p
				ctxGood = v.And(ctxGood, ctxOK(ctx))
				return nil
			})
			var errs z.ZogIssueMap
			if isV {
				errs = s.Validate(&sl, z.WithCtxValue("k", k))
			} else {
				errs = s.Parse([]any{x, x}, &sl, z.WithCtxValue("k", k))
			}
			if x > g {
				gp, ok := got.(*[]int)
				v.Assert(errs == nil && log == "s" && ok && gp == &sl, "C12:posttransform-did-not-run-on-success")
			} else {
				v.Assert(log == "", "C12:posttransform-ran-despite-issue")
			}
		}
		v.Assert(ctxGood, "C12:ctx-values")
		v.Cover("callback-ran")
	case "after-catch":
		// the same contracts when a catching sibling (whose catch need not fire) is visited first:
		// both visit orders are explored
		boom := errors.New("boom")
		var d struct {
			A int
			N c12In
			C int
			P int
		}
		d.A, d.N, d.C, d.P = x, c12In{X: 1, Y: "s"}, 1, 1
		catcher := z.Int().GT(0).Catch(7)
		var errs z.ZogIssueMap
		switch b {
		case "post-error":
			s := z.Struct(z.Schema{"a": catcher, "n": z.Struct(z.Schema{"x": z.Int()}).PostTransform(func(p any, c z.Ctx) error { return boom })})
			if isV {
				errs = s.Validate(&d)
			} else {
				errs = s.Parse(map[string]any{"a": x, "n": map[string]any{"x": 1}}, &d)
			}
			v.Assert(len(errs["n"]) == 1 && errs["n"][0].Err == boom, "C12:posttransform-error-not-reported")
		case "preprocess-error":
			s := z.Struct(z.Schema{"a": catcher, "p": z.Preprocess(func(s string, c z.Ctx) (int, error) { return 0, boom }, z.Int())})
			errs = s.Parse(map[string]any{"a": x, "p": "s"}, &d)
			v.Assert(len(errs["p"]) == 1 && errs["p"][0].Err == boom, "C12:preprocess-error-not-reported")
		case "custom":
			s := z.Struct(z.Schema{"a": catcher, "c": z.CustomFunc(func(p *int, c z.Ctx) bool { return false }, z.IssueCode("cf"))})
			if isV {
				errs = s.Validate(&d)
			} else {
				errs = s.Parse(map[string]any{"a": x, "c": 1}, &d)
			}
			v.Assert(len(errs["c"]) == 1 && errs["c"][0].Code == "cf", "C12:custom-function-result-not-reported")
		case "slice-elements":
			var sl []int
			el := z.Preprocess(func(s string, c z.Ctx) (int, error) {
				if s == "bad" {
					return 0, boom
				}
				return 5, nil
			}, z.Int().GT(0).Catch(7))
			errs = z.Slice(el).Parse([]any{"ok", "bad", "ok"}, &sl)
			v.Assert(len(errs["[1]"]) == 1 && errs["[1]"][0].Err == boom, "C12:preprocess-error-not-reported")
			v.Assert(len(errs) == 2, "C12:unexpected-issues")
		}
		v.Cover("callback-ran")
	case "absent":
		// tests of an absent optional node are not called: ALL strings of white space only
		// (<=2 bytes, 3 thorough) at a String node, behind a pointer and as the input of a list
		s := v.String("s", 2+v.Tier())
		n := 0
		for n < len(s) {
			n++
		}
		v.Assume(refBlank(s, n))
		calls := 0
		rec := func(val any, ctx z.Ctx) bool { calls++; return true }
		// (PostTransforms are not tests: they run on every visit without issues, absent nodes included)
		var d struct {
			A string
			P *string
			L []string
		}
		errs := z.Struct(z.Schema{"a": z.String().TestFunc(rec), "p": z.Ptr(z.String().TestFunc(rec)), "l": z.Slice(z.String()).TestFunc(func(p any, ctx z.Ctx) bool { calls++; return true })}).
			Parse(map[string]any{"a": s, "p": s, "l": s}, &d)
		v.Cover("callback-ran")
		v.Assert(errs == nil && calls == 0, "C12:callback-count")
		v.Assert(d.A == "" && d.P == nil && d.L == nil, "C12:callback-count")
	case "preprocess":
		innerCalls := 0
		inner := z.Int().TestFunc(func(val any, ctx z.Ctx) bool { innerCalls++; return true })
		boom := errors.New("pre-boom")
		switch b {
		case "ok":
			s := z.Preprocess(func(data int, ctx z.Ctx) (int, error) { return data + 1, nil }, inner)
			v.Assume(v.And(x != -1, x < 1<<60))
			var d int
			errs := s.Parse(x, &d, z.WithCtxValue("k", k))
			v.Assert(len(errs) == 0 && d == x+1 && innerCalls == 1, "C12:preprocess-result-not-used")
		case "error":
			s := z.Preprocess(func(data int, ctx z.Ctx) (int, error) { return 0, boom }, inner)
			d := 5
			errs := s.Parse(x, &d)
			v.Assert(len(errs) == 1 && errs[0].Err == boom, "C12:preprocess-error-not-reported")
			v.Assert(innerCalls == 0 && d == 5, "C12:preprocess-error-did-not-skip-schema")
		case "mismatch":
			s := z.Preprocess(func(data int, ctx z.Ctx) (int, error) { return data, nil }, inner)
			d := 5
			var anyS z.ZogSchema = s
			_ = anyS
			var dd struct{ A int }
			dd.A = 5
			errs := z.Struct(z.Schema{"a": s}).Parse(map[string]any{"a": "not-an-int"}, &dd)
			v.Assert(len(errs["a"]) == 1 && errs["a"][0].Code == "coerce", "C12:preprocess-mismatch-not-reported")
			v.Assert(innerCalls == 0 && dd.A == 5 && d == 5, "C12:preprocess-error-did-not-skip-schema")
			// types Go could convert are still a mismatch: 3.9 is not an int, 65 is not a string
			fnCalls := 0
			sf := z.Preprocess(func(data int, ctx z.Ctx) (int, error) { fnCalls++; return data, nil }, inner)
			errs = z.Struct(z.Schema{"a": sf}).Parse(map[string]any{"a": 3.9}, &dd)
			v.Assert(len(errs["a"]) == 1 && errs["a"][0].Code == "coerce" && fnCalls == 0, "C12:preprocess-mismatch-not-reported")
			var ds struct{ A string }
			ss := z.Preprocess(func(data string, ctx z.Ctx) (string, error) { fnCalls++; return data, nil }, z.String())
			errs = z.Struct(z.Schema{"a": ss}).Parse(map[string]any{"a": 65}, &ds)
			v.Assert(len(errs["a"]) == 1 && errs["a"][0].Code == "coerce" && fnCalls == 0 && ds.A == "", "C12:preprocess-mismatch-not-reported")
		case "in-struct":
			s := z.Preprocess(func(data string, ctx z.Ctx) (int, error) {
				if !ctxOK(ctx) {
					return 0, boom
				}
				return len(data), nil
			}, inner)
			var dd struct{ A int }
			errs := z.Struct(z.Schema{"a": s}).Parse(map[string]any{"a": "four"}, &dd, z.WithCtxValue("k", k))
			v.Assert(errs == nil && dd.A == 4 && innerCalls == 1, "C12:preprocess-result-not-used")
		}
		v.Cover("callback-ran")
	}
}

// ---------------------------------------------------------------------------------------
// C19 — executions never modify the schema or the input.

func C19_Jobs() []string {
	return []string{
		"default-slice/top/parse", "default-slice/top/validate", "default-slice/field/parse", "default-slice/field/validate",
		"default-slice/nested/parse", "default-slice/nested/validate",
		"default-prim/parse", "default-prim/validate", "catch-prim/parse", "default-time/parse",
		"oneof-list", "contains-needle", "params-after-failures", "nil-slice-validate", "input/string-lists", "captured-issue", "two-dest-types", "test-params-kept",
		"input/map", "input/typed-slice", "input/struct", "input/nested", "input/form", "input/query",
		"validate-unchanged",
	}
}
func C19_Covers() []string { return []string{"checked"} }

func C19_Run(job string) {
	a, b, c, _ := split3(job)
	m := v.Int("mut") // what the PostTransform writes
	d0, d1 := v.Int("d0"), v.Int("d1")
	isV := c == "validate" || b == "validate"
	switch a {
	case "default-slice":
		def := []int{d0, d1}
		mutate := func(p any, ctx z.Ctx) error {
			s := *p.(*[]int)
			for i := range s {
				s[i] = m
			}
			return nil
		}
		switch b {
		case "top":
			s := z.Slice(z.Int()).Default(def).PostTransform(mutate)
			var r1, r2 []int
			if v.Choice("prealloc", 2) == 1 {
				r1, r2 = make([]int, 0, 4), make([]int, 0, 4)
			}
			if isV {
				s.Validate(&r1)
				s.Validate(&r2)
			} else {
				s.Parse(nil, &r1)
				s.Parse(nil, &r2)
			}
			v.Assert(def[0] == d0 && def[1] == d1, "C19:schema-default-modified")
			v.Assert(len(r2) == 2 && r2[0] == m && r2[1] == m, "C19:second-use-differs")
			r1[0] = m + 1 // the caller owns the destination
			v.Assert(def[0] == d0, "C19:destination-aliases-schema-default")
		case "field":
			type T struct{ L []int }
			s := z.Struct(z.Schema{"l": z.Slice(z.Int()).Default(def).PostTransform(mutate)})
			var r1, r2 T
			if isV {
				s.Validate(&r1)
				s.Validate(&r2)
			} else {
				s.Parse(map[string]any{}, &r1)
				s.Parse(map[string]any{"x": 1}, &r2)
			}
			v.Assert(def[0] == d0 && def[1] == d1, "C19:schema-default-modified")
			v.Assert(len(r2.L) == 2 && r2.L[0] == m, "C19:second-use-differs")
			if len(r1.L) > 0 {
				r1.L[0] = m + 1
			}
			v.Assert(def[0] == d0, "C19:destination-aliases-schema-default")
		case "nested":
			defn := [][]int{{d0}, {d1}}
			s := z.Slice(z.Slice(z.Int())).Default(defn).PostTransform(func(p any, ctx z.Ctx) error {
				for _, row := range *p.(*[][]int) {
					for i := range row {
						row[i] = m
					}
				}
				return nil
			})
			var r1, r2 [][]int
			if v.Choice("prealloc", 2) == 1 {
				r1, r2 = make([][]int, 0, 4), make([][]int, 0, 4) // empty destination with spare capacity
			}
			if isV {
				s.Validate(&r1)
				s.Validate(&r2)
			} else {
				s.Parse(nil, &r1)
				s.Parse(nil, &r2)
			}
			v.Assert(defn[0][0] == d0 && defn[1][0] == d1, "C19:schema-default-modified")
			v.Assert(len(r2) == 2 && len(r2[0]) == 1 && r2[0][0] == m, "C19:second-use-differs")
		}
	case "default-prim", "catch-prim":
		mut := func(p any, ctx z.Ctx) error { *p.(*int) = m; return nil }
		var s *z.NumberSchema[int]
		if a == "default-prim" {
			s = z.Int().Default(d0).PostTransform(mut)
		} else {
			s = z.Int().GT(1 << 62).Catch(d0).PostTransform(mut)
		}
		r1, r2 := 0, 0
		if isV {
			s.Validate(&r1)
			s2 := z.Int().Default(d0) // a plain twin shows the stored default
			s2.Validate(&r2)
			_ = s2
		} else {
			var in any
			if a == "catch-prim" {
				in = 1
			}
			s.Parse(in, &r1)
		}
		// second use of the same schema without the mutation visible: rebuild the observation
		probe := 0
		if a == "default-prim" {
			z.Int().Default(d0).Parse(nil, &probe)
			v.Assert(probe == d0, "C19:schema-default-modified")
		}
		r3 := 0
		var in any
		if a == "catch-prim" {
			in = 1
		}
		if isV {
			s.Validate(&r3)
		} else {
			s.Parse(in, &r3)
		}
		v.Assert(r1 == m && r3 == m, "C19:second-use-differs")
	case "default-time":
		def := time.Unix(1000, 0).UTC()
		s := z.Time().Default(def).PostTransform(func(p any, ctx z.Ctx) error {
			*p.(*time.Time) = time.Unix(5, 0).UTC()
			return nil
		})
		var r1, r2 time.Time
		s.Parse(nil, &r1)
		s.Parse(nil, &r2)
		v.Assert(def.Equal(time.Unix(1000, 0)), "C19:schema-default-modified")
		v.Assert(r1.Equal(r2), "C19:second-use-differs")
	case "oneof-list":
		enum := []int{d0, d1}
		x := v.Int("x")
		s := z.Int().OneOf(enum).PostTransform(func(p any, ctx z.Ctx) error { *p.(*int) = m; return nil })
		r := 0
		e1 := s.Parse(x, &r)
		v.Assert(enum[0] == d0 && enum[1] == d1, "C19:captured-list-modified")
		r2 := 0
		e2 := s.Parse(x, &r2)
		v.Assert(len(e1) == len(e2) && r == r2, "C19:second-use-differs")
	case "two-dest-types":
		// a schema behaves on a later use exactly as on its first use, whatever it was used with
		type A struct{ First, Last, Note string }
		type B struct{ Last, First string }
		mk := func() *z.StructSchema {
			return z.Struct(z.Schema{"first": z.String().Required(), "last": z.String().Min(3)})
		}
		used := mk()
		f, l := visible("f", 2), visible("l", 2)
		v.Assume(len(f) > 0)
		in := map[string]any{"first": f, "last": l}
		var a A
		used.Parse(in, &a)
		used.Validate(&a)
		var b1, b2 B
		e1 := used.Parse(in, &b1)
		e2 := mk().Parse(in, &b2)
		v.Assert(sameMapsExcept(e1, e2, nil) && b1 == b2 && b1.First == f, "C19:second-use-differs")
		e3, e4 := used.Validate(&b1), mk().Validate(&b2)
		v.Assert(sameMapsExcept(e3, e4, nil), "C19:second-use-differs")
	case "test-params-kept":
		// the parameters a test was built with are the schema's: issues may be swallowed by Catch
		// or handed back with Collect without changing them
		params := map[string]any{"lo": d0, "hi": d1}
		reusable := z.TestFunc("between", func(val any, c z.Ctx) bool { return false }, z.Params(params))
		x := v.Int("x")
		r := 0
		z.Int().Test(reusable).GT(1<<40).Catch(1).Parse(x, &r)
		z.Issues.CollectList(z.Int().Test(reusable).Parse(x, &r))
		errs := z.Int().Test(reusable).GT(1<<40).Parse(x, &r)
		v.Assert(len(params) == 2 && eqAny(params["lo"], d0), "C19:captured-list-modified")
		v.Assert(len(errs) >= 1 && len(errs[0].Params) == 2 && eqAny(errs[0].Params["hi"], d1), "C19:second-use-differs")
		if len(errs) == 2 {
			v.Assert(len(errs[1].Params) == 1, "C19:second-use-differs")
		}
	case "contains-needle":
		needle := []int{d0}
		xs := [][]int{{d0}, {d1}}
		s := z.Slice(z.Slice(z.Int())).Contains(needle)
		s.Validate(&xs)
		v.Assert(needle[0] == d0 && xs[0][0] == d0 && xs[1][0] == d1, "C19:captured-list-modified")
	case "input":
		x, y := v.Int("x"), v.Int("y")
		mutAll := func(p any, ctx z.Ctx) error {
			switch d := p.(type) {
			case *[]int:
				for i := range *d {
					(*d)[i] = m
				}
			case *c12Dest:
				d.A, d.N.X = m, m
				for i := range d.L {
					d.L[i] = m
				}
			}
			return nil
		}
		switch b {
		case "map":
			in := map[string]any{"a": x, "l": []any{y, x}, "n": map[string]any{"x": y, "y": "s"}}
			var d c12Dest
			z.Struct(z.Schema{"a": z.Int(), "l": z.Slice(z.Int()).PostTransform(mutAll), "n": z.Struct(z.Schema{"x": z.Int(), "y": z.String()})}).PostTransform(mutAll).Parse(in, &d)
			l := in["l"].([]any)
			n := in["n"].(map[string]any)
			v.Assert(len(in) == 3 && eqAny(in["a"], x) && len(l) == 2 && eqAny(l[0], y) && eqAny(l[1], x) && len(n) == 2 && eqAny(n["x"], y), "C19:input-modified")
		case "typed-slice":
			in := []int{x, y}
			var d []int
			z.Slice(z.Int()).PostTransform(mutAll).Parse(in, &d)
			v.Assert(len(d) == 2 && d[0] == m, "C19:second-use-differs")
			v.Assert(in[0] == x && in[1] == y, "C19:input-modified")
			d[1] = m + 1
			v.Assert(in[1] == y, "C19:destination-aliases-input")
		case "struct":
			in := c12Dest{A: x, L: []int{y, x}, N: c12In{X: y}}
			var d c12Dest
			z.Struct(z.Schema{"a": z.Int(), "l": z.Slice(z.Int()).PostTransform(mutAll), "n": z.Struct(z.Schema{"x": z.Int()})}).PostTransform(mutAll).Parse(in, &d)
			v.Assert(in.A == x && in.L[0] == y && in.L[1] == x && in.N.X == y, "C19:input-modified")
			if len(d.L) > 0 {
				d.L[0] = m + 1
				v.Assert(in.L[0] == y, "C19:destination-aliases-input")
			}
			// fields promoted through embedded pointers, some of them nil: reading them allocates nothing
			// inside the caller's value
			type C19Deep struct{ Z int }
			type C19Mid struct {
				*C19Deep
				Y int
			}
			type C19Outer struct {
				*C19Mid
				W int
			}
			mid := &C19Mid{Y: y}
			byPtr := v.Choice("input-by-pointer", 2) == 1
			outer := C19Outer{C19Mid: mid, W: x}
			var dz struct{ W, Y, Z int }
			sc := z.Struct(z.Schema{"W": z.Int(), "Y": z.Int(), "Z": z.Int().Required()})
			var e1 z.ZogIssueMap
			if byPtr {
				e1 = sc.Parse(&outer, &dz)
			} else {
				e1 = sc.Parse(outer, &dz)
			}
			v.Assert(mid.C19Deep == nil && outer.C19Mid == mid && mid.Y == y && outer.W == x, "C19:input-modified")
			// ... and the same input gives the same result on a second use
			var dz2 struct{ W, Y, Z int }
			var e2 z.ZogIssueMap
			if byPtr {
				e2 = sc.Parse(&outer, &dz2)
			} else {
				e2 = sc.Parse(outer, &dz2)
			}
			v.Assert(len(e1) == len(e2) && len(e1["Z"]) == len(e2["Z"]) && dz == dz2, "C19:schema-behaves-differently-on-later-use")
		case "string-lists":
			// typed string lists with blank entries at every position (top level, struct field, nested,
			// as a slice default): the input and the default are left as they were
			blankAt := v.Choice("blank-at", 4) // 3 = none
			blank := []string{"", " ", "\t"}[v.Choice("blank", 3)]
			mk := func() []string {
				l := []string{"a", "b", "c"}
				if blankAt < 3 {
					l[blankAt] = blank
				}
				return l
			}
			in, ref := mk(), mk()
			var d []string
			z.Slice(z.String()).Parse(in, &d)
			v.Assert(len(in) == 3 && in[0] == ref[0] && in[1] == ref[1] && in[2] == ref[2], "C19:input-modified")
			inS := struct{ Tags []string }{mk()}
			var dS struct{ Tags []string }
			z.Struct(z.Schema{"Tags": z.Slice(z.String())}).Parse(inS, &dS)
			z.Struct(z.Schema{"tags": z.Slice(z.String())}).Parse(map[string]any{"tags": inS.Tags}, &dS)
			v.Assert(inS.Tags[0] == ref[0] && inS.Tags[1] == ref[1] && inS.Tags[2] == ref[2], "C19:input-modified")
			def := [][]string{mk()}
			sd := z.Slice(z.Slice(z.String())).Default(def)
			var dd1, dd2 [][]string
			sd.Parse(nil, &dd1)
			sd.Parse(nil, &dd2)
			v.Assert(def[0][0] == ref[0] && def[0][1] == ref[1] && def[0][2] == ref[2], "C19:schema-default-modified")
			v.Assert(len(dd1) == len(dd2) && len(dd1) == 1 && len(dd1[0]) == len(dd2[0]), "C19:second-use-differs")
		case "form", "query":
			// a request is input too: what net/http parsed (r.Form, r.PostForm, the URL) is the
			// same after Parse, blanks and repeated keys included
			qs := "name=%20pad%20&tags[]=%20go%20&tags[]=x%09&multi=%20a&multi=b%20&n=5"
			req := c11Request("POST", "application/x-www-form-urlencoded", qs, "")
			if b == "query" {
				req = c11Request("GET", "", "", qs)
			}
			req.ParseForm()
			var d struct {
				Name  string
				Tags  []string
				Multi []string
				N     int
			}
			sc := z.Struct(z.Schema{"name": z.String(), "tags": z.Slice(z.String()).PostTransform(func(p any, ctx z.Ctx) error {
				for i := range *p.(*[]string) {
					(*p.(*[]string))[i] = "changed"
				}
				return nil
			}), "multi": z.Slice(z.String()), "n": z.Int()})
			sc.Parse(zhttp.Request(req), &d)
			f := req.Form
			v.Assert(len(f) == 4 && len(f["name"]) == 1 && f["name"][0] == " pad " && len(f["tags[]"]) == 2 && f["tags[]"][0] == " go " && f["tags[]"][1] == "x\t" &&
				len(f["multi"]) == 2 && f["multi"][0] == " a" && f["multi"][1] == "b " && f["n"][0] == "5", "C19:input-modified")
			v.Assert(req.URL.RawQuery == map[string]string{"form": "", "query": qs}[b], "C19:input-modified")
			if len(d.Multi) == 2 {
				d.Multi[0] = "mine"
				v.Assert(f["multi"][0] == " a", "C19:destination-aliases-input")
			}
		case "nested":
			row := []any{x}
			in := []any{row, []any{y}}
			var d [][]int
			z.Slice(z.Slice(z.Int()).PostTransform(mutAll)).Parse(in, &d)
			v.Assert(eqAny(row[0], x) && len(in) == 2, "C19:input-modified")
		}
	case "params-after-failures":
		// failing executions (whose messages render the test's parameters) leave the schema's
		// captured lists as they were: OneOf lists, Contains needles, the caller's own slices
		list := []string{"cherry", "apple", "banana"}
		nums := []int{30, 10, 20}
		needle := []int{3, 1}
		so, sn, sc := z.String().OneOf(list), z.Int().OneOf(nums), z.Slice(z.Slice(z.Int())).Contains(needle)
		var ds string
		var dn int
		var dl [][]int
		for r := 0; r < 2; r++ {
			e1 := so.Parse("zzz", &ds)
			e2 := sn.Parse(5, &dn)
			e3 := sc.Parse([]any{[]any{1, 3}}, &dl)
			v.Assert(len(e1) == 1 && len(e2) == 1 && len(e3["$root"]) == 1, "C19:second-use-differs")
			so.Validate(&ds)
			sn.Validate(&dn)
		}
		v.Assert(list[0] == "cherry" && list[1] == "apple" && list[2] == "banana" && nums[0] == 30 && nums[1] == 10 && nums[2] == 20 && needle[0] == 3 && needle[1] == 1, "C19:schema-value-modified")
		e4 := sc.Parse([]any{[]any{3, 1}}, &dl)
		v.Assert(e4 == nil, "C19:second-use-differs")
		e5 := so.Parse("cherry", &ds)
		v.Assert(len(e5) == 0, "C19:second-use-differs")
	case "captured-issue":
		// a ready-made issue returned by a PostTransform (the sentinel-error pattern, complete with
		// type and message) is the caller's value: two executions failing at different items report it
		// where each of them failed and leave the captured value alone
		sentinel := &z.ZogIssue{Code: "dup", Dtype: "string", Message: "duplicate", Params: map[string]any{"k": 1}}
		item := z.String().PostTransform(func(p any, ctx z.Ctx) error {
			if *p.(*string) == "bad" {
				return sentinel
			}
			return nil
		})
		sc := z.Struct(z.Schema{"tags": z.Slice(item)})
		var d struct{ Tags []string }
		e1 := sc.Parse(map[string]any{"tags": []any{"ok", "bad"}}, &d)
		path1 := sentinel.Path
		e2 := sc.Parse(map[string]any{"tags": []any{"bad", "ok"}}, &d)
		d.Tags = []string{"ok", "ok", "bad"}
		e3 := sc.Validate(&d)
		v.Assert(len(e1) == 2 && len(e2) == 2 && len(e3) == 2, "C19:second-use-differs")
		_ = path1
		v.Assert(sentinel.Code == "dup" && sentinel.Message == "duplicate" && sentinel.Dtype == "string" && len(sentinel.Params) == 1, "C19:schema-value-modified")
		// (where an issue that carries no path of its own is filed is C10's/C12's subject; here: the
		// second and third use do not inherit anything from the first)
		same := func(a, b z.ZogIssueMap) bool {
			ka, kb := "", ""
			for _, k := range []string{"$root", "tags", "tags[0]", "tags[1]", "tags[2]"} {
				ka += v.Sprint(len(a[k]))
				kb += v.Sprint(len(b[k]))
			}
			return ka == kb
		}
		var dF struct{ Tags []string }
		fresh := &z.ZogIssue{Code: "dup", Dtype: "string", Message: "duplicate"}
		itemF := z.String().PostTransform(func(p any, ctx z.Ctx) error {
			if *p.(*string) == "bad" {
				return fresh
			}
			return nil
		})
		e2f := z.Struct(z.Schema{"tags": z.Slice(itemF)}).Parse(map[string]any{"tags": []any{"bad", "ok"}}, &dF)
		v.Assert(same(e2, e2f), "C19:second-use-differs")
	case "nil-slice-validate":
		// Validate changes the value only through Default, Catch and PostTransform: a nil slice
		// stays nil (read-only transforms, optional slices, top level and below a struct)
		ro := func(p any, ctx z.Ctx) error { return nil }
		var top []int
		e1 := z.Slice(z.Int()).PostTransform(ro).Validate(&top)
		v.Assert(e1 == nil && top == nil, "C19:validate-changed-a-valid-value")
		var ds struct {
			L  []int
			LL [][]int
		}
		ds.LL = [][]int{nil}
		e2 := z.Struct(z.Schema{"l": z.Slice(z.Int()).PostTransform(ro), "lL": z.Slice(z.Slice(z.Int()).PostTransform(ro))}).PostTransform(ro).Validate(&ds)
		v.Assert(e2 == nil && ds.L == nil && len(ds.LL) == 1 && ds.LL[0] == nil, "C19:validate-changed-a-valid-value")
		var in any
		var pd []int
		e3 := z.Slice(z.Int()).PostTransform(ro).Parse(in, &pd)
		v.Assert(e3 == nil && pd == nil, "C19:validate-changed-a-valid-value")
	case "validate-unchanged":
		x, y := v.Int("x"), v.Int("y")
		d := c12Dest{A: x, L: []int{y}, N: c12In{X: y, Y: "s"}, C: x}
		px := y
		d.PN = &c12In{X: px}
		z.Struct(z.Schema{"a": z.Int().GT(0), "l": z.Slice(z.Int().LT(5)).Min(3), "n": z.Struct(z.Schema{"x": z.Int().Required(), "y": z.String().Min(9)}), "pN": z.Ptr(z.Struct(z.Schema{"x": z.Int()})),
			"c": z.CustomFunc(func(p *int, ctx z.Ctx) bool { return false })}).Validate(&d)
		v.Assert(d.A == x && len(d.L) == 1 && d.L[0] == y && d.N.X == y && d.N.Y == "s" && d.C == x && d.PN != nil && d.PN.X == y, "C19:validate-changed-the-value")
	}
	v.Cover("checked")
}
