package h

import (
	"strconv"
	"math"
	"net/http"
	"os"
	"strings"

	z "github.com/Oudwins/zog"
	p "github.com/Oudwins/zog/internals"
	"github.com/Oudwins/zog/parsers/zjson"
	"github.com/Oudwins/zog/zenv"
	"github.com/Oudwins/zog/zhttp"
	v "github.com/Oudwins/zog/zzverif"
)

func init() {
	Registry["C14"] = C14_Run
	Registry["C15"] = C15_Run
}

// ---------------------------------------------------------------------------------------
// C15 — zhttp picks the documented source and reports undecodable requests as one issue.

func C15_Jobs() []string {
	return []string{"dispatch", "dispatch-real/json", "dispatch-real/form", "dispatch-real/query", "bad-json", "bad-form", "empty-object", "query-values", "form-values", "ptr-dest", "content-length", "form-merges-query", "bad-body-ptr-notnil", "json-whitespace"}
}
func C15_Covers() []string { return []string{"json", "form", "query", "decode-failure"} }

type c15Dest struct {
	A    int
	Name string
	Tags []string
}

func C15_Run(job string) {
	a, b, _, _ := split3(job)
	switch a {
	case "dispatch":
		// method and Content-Type are symbolic; the three parsers are replaced by recorders
		method := v.String("method", 7+v.Tier())
		ct := v.String("content-type", 35+5*v.Tier())
		chosen := ""
		oj, of, oq := zhttp.Config.Parsers.JSON, zhttp.Config.Parsers.Form, zhttp.Config.Parsers.Query
		mk := func(name string) zhttp.ParserFunc {
			return func(r *http.Request) p.DpFactory {
				chosen = name
				return func() (p.DataProvider, *p.ZogIssue) { return nil, nil }
			}
		}
		zhttp.Config.Parsers.JSON, zhttp.Config.Parsers.Form, zhttp.Config.Parsers.Query = mk("json"), mk("form"), mk("query")
		r := c11Request(method, "", "", "")
		r.Header["Content-Type"] = []string{ct}
		zhttp.Request(r)
		zhttp.Config.Parsers.JSON, zhttp.Config.Parsers.Form, zhttp.Config.Parsers.Query = oj, of, oq
		// media type = the text before the first ';' (branch-free over the concrete length)
		n := 0
		for n < len(ct) {
			n++
		}
		semi := n
		for i := n - 1; i >= 0; i-- {
			semi = v.Ite(ct[i] == ';', i, semi)
		}
		mt := ct[:semi]
		switch {
		case method == "GET" || method == "HEAD":
			v.Cover("query")
			v.Assert(chosen == "query", "C15:get-head-must-read-the-query")
		case mt == "application/json":
			v.Cover("json")
			v.Assert(chosen == "json", "C15:json-media-type-not-dispatched-to-json")
		case mt == "application/x-www-form-urlencoded":
			v.Cover("form")
			v.Assert(chosen == "form", "C15:form-media-type-not-dispatched-to-form")
		default:
			// spellings that differ from the canonical one only in case or blanks are left
			// unconstrained: the oracle speaks only when the media type contains neither a blank nor
			// an upper-case letter, i.e. is already normalised; then "neither json nor form" is exact
			amb := 0
			for i := 0; i < n; i++ {
				c := ct[i]
				isAmb := v.B2I(c == ' ') | v.B2I(c == '\t') | (v.B2I(c >= 'A') & v.B2I(c <= 'Z'))
				amb |= isAmb & v.B2I(i < semi)
			}
			v.Assert(v.Or(amb == 1, chosen == "query"), "C15:other-media-types-must-read-the-query")
		}
	case "dispatch-real":
		// the real parsers, sentinel values in body / form / query tell which source was read
		cts := map[string][]string{
			"json": {"application/json", "application/json; charset=utf-8", "application/json;charset=utf-8",
				// parameters are not zog's business: repeated, oddly cased, valueless, quoted
				"application/json; charset=utf-8; charset=UTF-8", "application/json; a=1; A=2", "application/json; charset", "application/json;;q=1", `application/json; x="a;b"`, "application/json; charset=utf-8; charset=utf-8"},
			"form":  {"application/x-www-form-urlencoded", "application/x-www-form-urlencoded; charset=UTF-8"},
			"query": {"", "text/plain", "multipart/form-data; boundary=x", "application/xml"},
		}[b]
		ct := cts[v.Choice("ct", len(cts))]
		method := []string{"POST", "PUT", "PATCH", "DELETE", "GET", "HEAD"}[v.Choice("method", 6)]
		body := `{"a":1}`
		if b == "form" {
			body = "a=2"
		}
		var d struct{ A, B int }
		errs := z.Struct(z.Schema{"a": z.Int(), "b": z.Int()}).Parse(zhttp.Request(c11Request(method, ct, body, "b=3")), &d)
		v.Assert(errs == nil, "C15:unexpected-issues")
		wantA, wantB := 0, 3
		if method != "GET" && method != "HEAD" {
			switch b {
			case "json":
				wantA, wantB = 1, 0 // the JSON body only
			case "form":
				// body plus query, as net/http defines it: the body is read for POST, PUT and PATCH
				if method == "POST" || method == "PUT" || method == "PATCH" {
					wantA = 2
				}
			}
		}
		v.Cover(b)
		v.Assert(d.A == wantA && d.B == wantB, "C15:wrong-source-read")
	case "bad-json", "bad-form":
		bodies := []string{``, `{`, `[1,2]`, `1`, `"s"`, `null`, `{"a":}`, `{"a":1`, `true`}
		ct, code := "application/json", "invalid_json"
		if a == "bad-form" {
			bodies = []string{`a=%zz`, `%`, `a=1&b=%g1`, `a;b=1`}
			ct, code = "application/x-www-form-urlencoded", "invalid_form"
		}
		body := bodies[v.Choice("body", len(bodies))]
		ran := 0
		d := c15Dest{A: 42, Name: "keep"}
		s := z.Struct(z.Schema{"a": z.Int().Required().TestFunc(func(x any, c z.Ctx) bool { ran++; return true }), "name": z.String().Required()}).
			TestFunc(func(x any, c z.Ctx) bool { ran++; return true })
		errs := s.Parse(zhttp.Request(c11Request("POST", ct, body, "")), &d)
		v.Cover("decode-failure")
		n := 0
		for k, l := range errs {
			if k != "$first" {
				n += len(l)
			}
		}
		v.Assert(n == 1 && len(errs["$root"]) == 1 && errs["$root"][0].Code == code, "C15:decode-failure-not-exactly-one-top-level-issue")
		v.Assert(ran == 0, "C15:schema-ran-after-decode-failure")
		v.Assert(d.A == 42 && d.Name == "keep", "C15:destination-written-after-decode-failure")
	case "json-whitespace":
		// JSON allows space, tab, LF and CR around the document: every 0..2-byte prefix and suffix of
		// them (chosen byte by byte) leaves a valid object valid and an invalid one invalid
		ws := []string{"", " ", "\t", "\n", "\r"}
		pre := ws[v.Choice("pre1", 5)] + ws[v.Choice("pre2", 5)]
		post := ws[v.Choice("post", 5)]
		valid := v.Choice("valid", 2) == 1
		doc := `{"a":5,"name":"n"}`
		if !valid {
			doc = `[5]`
		}
		var d c15Dest
		errs := z.Struct(z.Schema{"a": z.Int().Required(), "name": z.String().Required()}).Parse(zhttp.Request(c11Request("POST", "application/json", pre+doc+post, "")), &d)
		if valid {
			v.Cover("json")
			v.Assert(errs == nil && d.A == 5 && d.Name == "n", "C15:unexpected-issues")
		} else {
			v.Cover("decode-failure")
			v.Assert(len(errs) == 2 && len(errs["$root"]) == 1 && errs["$root"][0].Code == "invalid_json", "C15:decode-failure-not-exactly-one-top-level-issue")
		}
	case "form-merges-query":
		// the form is the body PLUS the URL query, as net/http defines it (body values first): for
		// every method that carries a form body
		method := []string{"POST", "PUT", "PATCH", "DELETE"}[v.Choice("method", 4)]
		req := c11Request(method, "application/x-www-form-urlencoded", "name=body&tags=b1", "a=7&tags=q1")
		var d c15Dest
		errs := z.Struct(z.Schema{"a": z.Int().Required(), "name": z.String(), "tags": z.Slice(z.String())}).Parse(zhttp.Request(req), &d)
		v.Cover("form")
		if method == "DELETE" { // no form body for DELETE: only the query is the form
			v.Assert(errs == nil && d.A == 7 && d.Name == "" && len(d.Tags) == 1 && d.Tags[0] == "q1", "C15:wrong-source-read")
		} else {
			v.Assert(errs == nil && d.A == 7 && d.Name == "body", "C15:wrong-source-read")
			v.Assert(len(d.Tags) == 2 && d.Tags[0] == "b1" && d.Tags[1] == "q1", "C15:wrong-source-read")
		}
	case "bad-body-ptr-notnil":
		// an undecodable body is exactly one top-level issue also when the root is Ptr(Struct).NotNil()
		bodies := []struct{ ct, body, code string }{{"application/json", `{`, "invalid_json"}, {"application/json", `[1]`, "invalid_json"}, {"application/json", `null`, "invalid_json"},
			{"application/json", ``, "invalid_json"}, {"application/x-www-form-urlencoded", `a=%zz`, "invalid_form"}}
		bd := bodies[v.Choice("body", len(bodies))]
		ran := 0
		var pd *c15Dest
		s := z.Ptr(z.Struct(z.Schema{"a": z.Int().Required().TestFunc(func(x any, c z.Ctx) bool { ran++; return true })})).NotNil()
		errs := s.Parse(zhttp.Request(c11Request("POST", bd.ct, bd.body, "")), &pd)
		v.Cover("decode-failure")
		n := 0
		for k, l := range errs {
			if k != "$first" {
				n += len(l)
			}
		}
		v.Assert(n == 1 && len(errs["$root"]) == 1 && errs["$root"][0].Code == bd.code, "C15:decode-failure-not-exactly-one-top-level-issue")
		v.Assert(ran == 0 && pd == nil, "C15:schema-ran-after-decode-failure")
	case "content-length":
		// the body is the document, whatever length the request declares: unknown (-1, chunked
		// transfer), exact, or left at zero by a hand-built request
		body := `{"a":5,"name":"n","tags":["x"]}`
		front := v.Choice("front", 2)
		if front == 1 {
			body = "a=5&name=n&tags=x"
		}
		req := c11Request("POST", []string{"application/json", "application/x-www-form-urlencoded"}[front], body, "")
		req.ContentLength = []int64{-1, int64(len(body)), 0}[v.Choice("declared", 3)]
		var d c15Dest
		errs := z.Struct(z.Schema{"a": z.Int().Required(), "name": z.String().Required(), "tags": z.Slice(z.String())}).Parse(zhttp.Request(req), &d)
		v.Cover([]string{"json", "form"}[front])
		v.Assert(errs == nil, "C15:unexpected-issues")
		v.Assert(d.A == 5 && d.Name == "n" && len(d.Tags) == 1, "C15:wrong-source-read")
	case "ptr-dest":
		// the same request parsed into a pointer destination through Ptr(Struct): one decode, same record
		front := []string{"json", "form", "query"}[v.Choice("front", 3)]
		var req = c11Request("POST", "application/json", `{"a":5,"name":"n"}`, "")
		switch front {
		case "form":
			req = c11Request("POST", "application/x-www-form-urlencoded", "a=5&name=n", "")
		case "query":
			req = c11Request("GET", "", "", "a=5&name=n")
		}
		var pd *c15Dest
		errs := z.Ptr(z.Struct(z.Schema{"a": z.Int().Required(), "name": z.String().Required()})).Parse(zhttp.Request(req), &pd)
		v.Cover(front)
		v.Assert(errs == nil, "C15:unexpected-issues")
		v.Assert(pd != nil && pd.A == 5 && pd.Name == "n", "C15:wrong-source-read")
		var pd2 *c15Dest
		bad := z.Ptr(z.Struct(z.Schema{"a": z.Int()})).Parse(zhttp.Request(c11Request("POST", "application/json", "{", "")), &pd2)
		v.Assert(len(bad["$root"]) == 1 && bad["$root"][0].Code == "invalid_json" && pd2 == nil, "C15:decode-failure-not-exactly-one-top-level-issue")
	case "empty-object":
		var d c15Dest
		d.A = 42
		errs := z.Struct(z.Schema{"a": z.Int().Required(), "name": z.String()}).Parse(zhttp.Request(c11Request("POST", "application/json", `{}`, "")), &d)
		v.Assert(len(errs["a"]) == 1 && errs["a"][0].Code == "required" && len(errs["name"]) == 0, "C15:empty-object-fields-not-absent")
		v.Assert(d.A == 42, "C15:empty-object-fields-not-absent")
		errs = z.Struct(z.Schema{"a": z.Int(), "name": z.String()}).Parse(zjson.Decode(strings.NewReader(`{}`)), &d)
		v.Assert(errs == nil, "C15:empty-object-fields-not-absent")
		v.Cover("json")
	case "query-values", "form-values":
		type qc struct {
			q        string
			wantTags []string
			tagsReq  bool // a `required` issue is expected on tags
			name     string
		}
		cases := []qc{
			{"tags=a&tags=b&name=n", []string{"a", "b"}, false, "n"},
			{"tags=a&name=n", []string{"a"}, false, "n"},
			{"tags[]=a&name=n", []string{"a"}, false, "n"},
			{"tags[]=a&tags[]=b", []string{"a", "b"}, false, ""},
			{"name=n", nil, true, "n"},
			{"tags=&name=", nil, true, ""},
			{"", nil, true, ""},
			{"name=n&other[]=x", nil, true, "n"},         // a []-named parameter that is missing is absent too
			{"tags[]=&name=n", []string{""}, false, "n"}, // a []-named parameter is a list even with one blank value
			{"tags[]=%20", []string{""}, false, ""},      // one (blank, hence absent and unwritten) element
		}
		c := cases[v.Choice("case", len(cases))]
		key := "tags"
		if strings.Contains(c.q, "tags[]") || strings.Contains(c.q, "other[]") {
			key = "tags[]"
		}
		type D struct {
			Tags []string `query:"tags" form:"tags"`
			Name string
		}
		type Db struct {
			Tags []string `query:"tags[]" form:"tags[]"`
			Name string
		}
		schema := z.Struct(z.Schema{"tags": z.Slice(z.String()).Required(), "name": z.String()})
		var req = c11Request("GET", "", "", c.q)
		if a == "form-values" {
			req = c11Request("POST", "application/x-www-form-urlencoded", c.q, "")
		}
		var tags []string
		var name string
		var errs z.ZogIssueMap
		if key == "tags[]" {
			var d Db
			errs = schema.Parse(zhttp.Request(req), &d)
			tags, name = d.Tags, d.Name
		} else {
			var d D
			errs = schema.Parse(zhttp.Request(req), &d)
			tags, name = d.Tags, d.Name
		}
		v.Cover("query")
		if c.tagsReq {
			v.Assert(len(errs[key]) == 1 && errs[key][0].Code == "required", "C15:missing-parameter-not-absent")
		} else {
			v.Assert(len(errs[key]) == 0, "C15:present-parameter-reported")
			ok := len(tags) == len(c.wantTags)
			for i := 0; ok && i < len(tags); i++ {
				ok = tags[i] == c.wantTags[i]
			}
			v.Assert(ok, "C15:parameter-list-shape")
		}
		v.Assert(name == c.name, "C15:single-parameter-not-a-string")
	}
}

// ---------------------------------------------------------------------------------------
// C14 — all input front ends are equivalent views of the same record.

type c14Addr struct {
	City string `json:"city" form:"city" query:"city" env:"CITY"`
	Zip  int    `json:"zip_code" form:"zip_code" query:"zip_code" env:"ZIP_CODE"`
}
type c14Rec struct {
	Name  string  `json:"full_name" form:"full_name" query:"full_name" env:"FULL_NAME"`
	Age   int     `json:"age" form:"age" query:"age" env:"AGE"`
	Admin bool    `json:"admin" form:"admin" query:"admin" env:"ADMIN"`
	Score float64 `json:"score" form:"score" query:"score" env:"SCORE"`
	Addr  c14Addr `json:"addr" form:"addr" query:"addr" env:"ADDR"`
}

func c14Schema() *z.StructSchema {
	return z.Struct(z.Schema{
		"name":  z.String().Min(3).Required(),
		"age":   z.Int().GT(17).Required(),
		"admin": z.Bool(),
		"score": z.Float64().LT(100),
		"addr":  z.Struct(z.Schema{"city": z.String().Required(), "zip": z.Int().GT(999)}),
	})
}

type c14Val struct{ name, age, admin, score, city, zip string }

var c14Records = []c14Val{
	{"alice", "30", "true", "12.5", "Paris", "75001"},
	{"al", "17", "false", "100", "", "5"},
	{"bob", "x", "maybe", "1e2", "Rome", ""},
	{"", "", "", "", "", ""},
	{"carol", "18", "", "", "Oslo", "1000"},
}

func C14_Jobs() []string { return append(c14_jobs0(), "json-records") }
func c14_jobs0() []string {
	return append([]string{"flat/json", "flat/zhttp-json", "flat/form", "flat/query", "flat/env", "nested/json", "nested/zhttp-json", "nested/form", "nested/query", "nested/env", "flat/sequence", "flat/zhttp-json-param", "flat/named-map", "nested/named-map", "flat/named-strmap", "flat/env-reused", "values/float32-and-lists"}, c14SymJobs()...)
}
// one record whose leaves sit on value boundaries (a decimal next to a float32 rounding midpoint,
// a list whose occurrences are all equal, a one-element list), through every front end
func c14Values() {
	type R struct {
		Ratio float32  `json:"ratio" form:"ratio" query:"ratio" env:"RATIO"`
		Votes []string `json:"votes" form:"votes" query:"votes"`
		One   []string `json:"one" form:"one" query:"one"`
	}
	lit := []string{"1.00000005960464478", "16777217", "0.1", "3.4028235677973366e38", "1e-46"}[v.Choice("literal", 5)]
	sc := func() *z.StructSchema {
		return z.Struct(z.Schema{"ratio": z.Float32(), "votes": z.Slice(z.String()).Min(2), "one": z.Slice(z.String())})
	}
	obs := func(errs z.ZogIssueMap, d *R) string {
		out := v.Sprint(len(errs), len(d.Votes), len(d.One), math.Float32bits(d.Ratio))
		for _, k := range []string{"ratio", "votes", "one", "RATIO"} {
			out += "|" + strings.ToLower(k) + ":" + codesOf(errs[k])
		}
		return out
	}
	f64, _ := strconv.ParseFloat(lit, 64)
	var dRef R
	eRef := sc().Parse(map[string]any{"ratio": f64, "votes": []any{"yes", "yes"}, "one": []any{"x"}}, &dRef)
	want := obs(eRef, &dRef)
	var d R
	var errs z.ZogIssueMap
	qs := "ratio=" + lit + "&votes=yes&votes=yes&one=x"
	front := v.Choice("front", 6)
	switch front {
	case 0:
		errs = sc().Parse(map[string]any{"ratio": lit, "votes": []string{"yes", "yes"}, "one": "x"}, &d)
	case 1:
		errs = sc().Parse(zjson.Decode(strings.NewReader(`{"ratio":`+lit+`,"votes":["yes","yes"],"one":["x"]}`)), &d)
	case 2:
		errs = sc().Parse(zhttp.Request(c11Request("POST", "application/json", `{"ratio":"`+lit+`","votes":["yes","yes"],"one":"x"}`, "")), &d)
	case 3:
		errs = sc().Parse(zhttp.Request(c11Request("POST", "application/x-www-form-urlencoded", qs, "")), &d)
	case 4:
		errs = sc().Parse(zhttp.Request(c11Request("GET", "", "", qs)), &d)
	default:
		os.Setenv("RATIO", lit)
		var de struct {
			Ratio float32 `env:"RATIO"`
		}
		ee := z.Struct(z.Schema{"ratio": z.Float32()}).Parse(zenv.NewDataProvider(), &de)
		os.Unsetenv("RATIO")
		v.Cover("clean-record")
		v.Assert(codesOf(ee["RATIO"]) == strings.ReplaceAll(codesOf(eRef["ratio"]), "|ratio|", "|RATIO|") && math.Float32bits(de.Ratio) == math.Float32bits(dRef.Ratio), "C14:front-end-view-differs-from-the-map-view")
		return
	}
	v.Cover("clean-record")
	v.Assert(obs(errs, &d) == want, "C14:front-end-view-differs-from-the-map-view")
}

func C14_Covers() []string { return []string{"clean-record", "failing-record"} }

type c14H map[string]any
type c14P map[string]string

// observation of one parse: every issue as key|code plus the destination
func c14Obs(errs z.ZogIssueMap, d *c14Rec, nested bool, rename func(string) string) string {
	var parts []string
	for k, l := range errs {
		if k == "$first" {
			continue
		}
		for _, e := range l {
			parts = append(parts, rename(k)+"|"+e.Code)
		}
	}
	for i := 1; i < len(parts); i++ {
		for j := i; j > 0 && parts[j] < parts[j-1]; j-- {
			parts[j], parts[j-1] = parts[j-1], parts[j]
		}
	}
	s := strings.Join(parts, ",") + " :: " + v.Sprint(d.Name, d.Age, d.Admin, d.Score)
	if nested {
		s += v.Sprint(d.Addr.City, d.Addr.Zip)
	}
	return s
}

func C14_Run(job string) {
	if job == "json-records" {
		jrCheck("C14")
		return
	}
	a, b, _, _ := split3(job)
	if a == "sym" {
		c14Sym(b)
		return
	}
	if a == "values" {
		v.MapOrderChoice(false)
		c14Values()
		return
	}
	if b == "sequence" {
		// the same struct type parsed through several front ends in one process, in every order:
		// each view must still equal the map view
		order := [][]string{{"json", "form", "env"}, {"form", "env", "json"}, {"env", "json", "query"}, {"query", "json", "form"}, {"json", "env", "query"}, {"env", "form", "json"}}[v.Choice("order", 6)]
		for _, fe := range order {
			c14One("flat", fe, c14Records[0])
			c14One("flat", fe, c14Records[1])
		}
		return
	}
	rec := c14Records[v.Choice("record", len(c14Records))]
	c14One(a, b, rec)
}

func c14One(a, b string, rec c14Val) {
	nested := a == "nested"
	v.MapOrderChoice(false)
	schema := c14Schema()
	if !nested {
		schema = schema.Omit("addr")
	}
	// reference view: a Go map with string leaves under the schema keys (absent when empty)
	put := func(m map[string]any, k, val string) {
		if val != "" {
			m[k] = val
		}
	}
	ref := map[string]any{}
	put(ref, "name", rec.name)
	put(ref, "age", rec.age)
	put(ref, "admin", rec.admin)
	put(ref, "score", rec.score)
	if nested {
		am := map[string]any{}
		put(am, "city", rec.city)
		put(am, "zip", rec.zip)
		ref["addr"] = am
	}
	var dRef c14Rec
	eRef := schema.Parse(ref, &dRef)
	ident := func(s string) string { return s }
	want := c14Obs(eRef, &dRef, nested, ident)
	if eRef == nil {
		v.Cover("clean-record")
	} else {
		v.Cover("failing-record")
	}

	var d c14Rec
	var errs z.ZogIssueMap
	var rename func(string) string
	q := func(s string) string { return `"` + s + `"` }
	switch b {
	case "json", "zhttp-json", "zhttp-json-param":
		var fields []string
		add := func(k, val string) {
			if val != "" {
				fields = append(fields, q(k)+":"+q(val))
			}
		}
		add("full_name", rec.name)
		add("age", rec.age)
		add("admin", rec.admin)
		add("score", rec.score)
		if nested {
			var af []string
			if rec.city != "" {
				af = append(af, q("city")+":"+q(rec.city))
			}
			if rec.zip != "" {
				af = append(af, q("zip_code")+":"+q(rec.zip))
			}
			fields = append(fields, q("addr")+":{"+strings.Join(af, ",")+"}")
		}
		doc := "{" + strings.Join(fields, ",") + "}"
		if doc == "{}" {
			doc = `{"unrelated":1}` // the empty object is C15's subject
		}
		switch b {
		case "json":
			errs = schema.Parse(zjson.Decode(strings.NewReader(doc)), &d)
		case "zhttp-json-param":
			ct := []string{"application/json;charset=UTF-8", "application/json; charset=utf-8", "application/json;"}[v.Choice("ct", 3)]
			errs = schema.Parse(zhttp.Request(c11Request("PUT", ct, doc, "")), &d)
		default:
			errs = schema.Parse(zhttp.Request(c11Request("POST", "application/json", doc, "")), &d)
		}
		rename = func(k string) string {
			k = strings.ReplaceAll(k, "full_name", "name")
			return strings.ReplaceAll(k, "zip_code", "zip")
		}
	case "form", "query":
		var kv []string
		add := func(k, val string) {
			if val != "" {
				kv = append(kv, k+"="+val)
			}
		}
		add("full_name", rec.name)
		add("age", rec.age)
		add("admin", rec.admin)
		add("score", rec.score)
		if nested { // flat sources resolve nested fields against the same source
			add("city", rec.city)
			add("zip_code", rec.zip)
		}
		qs := strings.Join(kv, "&")
		if b == "form" {
			errs = schema.Parse(zhttp.Request(c11Request("POST", "application/x-www-form-urlencoded", qs, "")), &d)
		} else {
			errs = schema.Parse(zhttp.Request(c11Request("GET", "", "", qs)), &d)
		}
		rename = func(k string) string {
			k = strings.ReplaceAll(k, "full_name", "name")
			return strings.ReplaceAll(k, "zip_code", "zip")
		}
	case "named-map", "named-strmap":
		// the same record held in named map types (type H map[string]any, as gin.H or bson.M)
		rename = ident
		if b == "named-strmap" {
			h := c14P{}
			for k, e := range ref {
				h[k] = e.(string)
			}
			errs = schema.Parse(h, &d)
		} else {
			h := c14H{}
			for k, e := range ref {
				if am, ok := e.(map[string]any); ok {
					ah := c14H{}
					for ak, ae := range am {
						ah[ak] = ae
					}
					h[k] = ah
				} else {
					h[k] = e
				}
			}
			errs = schema.Parse(h, &d)
		}
	case "env-reused":
		// one long-lived environment provider: every parse sees the environment as it is then
		keys := []string{"FULL_NAME", "AGE", "ADMIN", "SCORE"}
		prov := zenv.NewDataProvider()
		for _, k := range keys {
			os.Setenv(k, "9")
		}
		var decoy c14Rec
		schema.Parse(prov, &decoy)
		for i, val := range []string{rec.name, rec.age, rec.admin, rec.score} {
			if val != "" {
				os.Setenv(keys[i], val)
			} else {
				os.Unsetenv(keys[i])
			}
		}
		errs = schema.Parse(prov, &d)
		for _, k := range keys {
			os.Unsetenv(k)
		}
		rename = func(k string) string {
			return strings.ToLower(strings.ReplaceAll(k, "FULL_NAME", "name"))
		}
	case "env":
		set := func(k, val string) {
			if val != "" {
				os.Setenv(k, "  "+val+" ") // env values are trimmed
			} else {
				os.Unsetenv(k)
			}
		}
		set("FULL_NAME", rec.name)
		set("AGE", rec.age)
		set("ADMIN", rec.admin)
		set("SCORE", rec.score)
		set("CITY", rec.city)
		set("ZIP_CODE", rec.zip)
		errs = schema.Parse(zenv.NewDataProvider(), &d)
		for _, k := range []string{"FULL_NAME", "AGE", "ADMIN", "SCORE", "CITY", "ZIP_CODE"} {
			os.Unsetenv(k)
		}
		rename = func(k string) string {
			k = strings.ReplaceAll(k, "FULL_NAME", "name")
			k = strings.ReplaceAll(k, "ZIP_CODE", "zip")
			k = strings.ReplaceAll(k, "ADDR", "addr")
			return strings.ToLower(k)
		}
	}
	got := c14Obs(errs, &d, nested, rename)
	v.Obs(want)
	v.Assert(got == want, "C14:front-end-view-differs-from-the-map-view")
}
