// Package zzverif is the nondeterminism / assertion API used by the harnesses in
// zzverif/h. The gosym engine intercepts every exported function of this package by
// name and gives it a symbolic meaning; the bodies below are the *native* meaning, used
// when a solver model is replayed against the real build (`go test -overlay`): values
// come from Script, assertions record their outcome.
package zzverif

import (
	"fmt"
	"math"
	"strconv"
	"sync/atomic"
)

// Script holds the values of one replay: name -> literal (ints decimal, floats as
// IEEE bit patterns in hex "0x..", strings as Go-quoted literals, bools "true"/"false").
var Script = map[string]string{}

// Trace is the sequence of covers and assertion outcomes of the current native run.
var Trace []string

// Failed is the label of the first failed assertion in the current native run.
var Failed string

var seq = map[string]int{}

// Reset prepares a new native run.
func Reset(script map[string]string) {
	Script = script
	Trace = nil
	Failed = ""
	seq = map[string]int{}
}

type AssumeFailed struct{ Name string }
type AssertFailed struct{ Label string }

func key(name string) string {
	k := seq[name]
	seq[name] = k + 1
	if k == 0 {
		return name
	}
	return name + "#" + strconv.Itoa(k)
}

func lookup(name string) (string, bool) {
	s, ok := Script[key(name)]
	return s, ok
}

func Int(name string) int { return int(Int64(name)) }
func Int64(name string) int64 {
	s, ok := lookup(name)
	if !ok {
		return 0
	}
	n, err := strconv.ParseInt(s, 10, 64)
	if err != nil {
		panic("zzverif: bad int for " + name + ": " + s)
	}
	return n
}
func Int32(name string) int32 { return int32(Int64(name)) }
func Byte(name string) byte   { return byte(Int64(name)) }
func Bool(name string) bool {
	s, _ := lookup(name)
	return s == "true"
}
func Float64(name string) float64 {
	s, ok := lookup(name)
	if !ok {
		return 0
	}
	u, err := strconv.ParseUint(s, 0, 64)
	if err != nil {
		panic("zzverif: bad float64 bits for " + name + ": " + s)
	}
	return math.Float64frombits(u)
}
func Float32(name string) float32 {
	s, ok := lookup(name)
	if !ok {
		return 0
	}
	u, err := strconv.ParseUint(s, 0, 32)
	if err != nil {
		panic("zzverif: bad float32 bits for " + name + ": " + s)
	}
	return math.Float32frombits(uint32(u))
}

// String is an arbitrary byte string of length <= max.
func String(name string, max int) string {
	s, ok := lookup(name)
	if !ok {
		return ""
	}
	r, err := strconv.Unquote(s)
	if err != nil {
		panic("zzverif: bad string for " + name + ": " + s)
	}
	return r
}

// Choice is an exhaustively enumerated choice in [0,n).
func Choice(name string, n int) int {
	s, ok := lookup(name)
	if !ok {
		return 0
	}
	k, _ := strconv.Atoi(s)
	if k < 0 || k >= n {
		panic("zzverif: choice out of range for " + name)
	}
	return k
}

func Assume(c bool) {
	if !c {
		panic(AssumeFailed{"assume"})
	}
}

// Assert records the outcome; a failed assertion ends the run.
func Assert(c bool, label string) {
	if c {
		Trace = append(Trace, "ok:"+label)
		return
	}
	Trace = append(Trace, "FAIL:"+label)
	Failed = label
	panic(AssertFailed{label})
}

// Check is Assert that does not stop the run (several properties share one exploration).
func Cover(label string) { Trace = append(Trace, "cover:"+label) }

// Obs records an observation that engine and native build must agree on.
func Obs(s string) { Trace = append(Trace, "obs:"+s) }

// Branch-free combinators for reference predicates.
func B2I(b bool) int {
	if b {
		return 1
	}
	return 0
}
func Ite(c bool, a, b int) int {
	if c {
		return a
	}
	return b
}
func And(a, b bool) bool     { return a && b }
func Or(a, b bool) bool      { return a || b }
func Not(a bool) bool        { return !a }
func Implies(a, b bool) bool { return !a || b }
func IteB(c, a, b bool) bool {
	if c {
		return a
	}
	return b
}

// Tier is 0 for quick, 1 for thorough.
var tier = 0

func Tier() int     { return tier }
func SetTier(t int) { tier = t }

// Schedule knobs (engine only; no-ops natively).
func PoolChoice(on bool)     {}
func MapOrderChoice(on bool) {}

// Concrete reports whether v is free of symbolic parts (always true natively).
func Concrete(v any) bool { return true }

// Fail ends the run with a violation unconditionally (used for "must not be reached").
func Fail(label string) { Assert(false, label) }

func Sprint(a ...any) string { return fmt.Sprint(a...) }

// Itoa / Ftoa render a number the way strconv does; the engine keeps the link to the
// number so that the inverse parser is exact.
func Itoa(n int) string       { return strconv.Itoa(n) }
func Ftoa(f float64) string   { return strconv.FormatFloat(f, 'g', -1, 64) }
func Trunc(f float64) float64 { return math.Trunc(f) }
func IsNaN(f float64) bool    { return f != f }
func IsInf(f float64) bool    { return math.IsInf(f, 0) }

// SameBits: identical as IEEE values (NaN equals NaN, +0 differs from -0).
func SameBits(a, b float64) bool {
	if a != a && b != b {
		return true
	}
	return math.Float64bits(a) == math.Float64bits(b)
}

// Native reports whether the harness is running in the real build (replay) rather than in the
// engine; used only to add diagnostics to replays.
func Native() bool { return true }

// Freeze declares the objects shared between executions (engine: while frozen, any store into
// a cell reachable from them or from zog's package-level variables is a violation).
func Freeze(roots ...any) {}
func Unfreeze()           {}

// ConcurrencyReps is how often each goroutine repeats its body in a native run.
var ConcurrencyReps = 200

// Concurrently runs f(0..n-1) at the same time (natively: n goroutines, repeated, meant to be
// run under the race detector); the engine runs the bodies sequentially under its monitors.
func Concurrently(n int, f func(i int)) {
	done := make(chan any, n)
	for k := 0; k < n; k++ {
		go func(k int) {
			defer func() { done <- recover() }()
			for r := 0; r < ConcurrencyReps; r++ {
				f(k)
			}
		}(k)
	}
	var first any
	for k := 0; k < n; k++ {
		if r := <-done; r != nil && first == nil {
			first = r
		}
	}
	if first != nil {
		panic(first)
	}
}

// Flag / Flagged: a goroutine-safe counter for harness bodies run by Concurrently.
var flagged atomic.Int32

func Flag()        { flagged.Add(1) }
func Flagged() int { return int(flagged.Load()) }
func FlagReset()   { flagged.Store(0) }
