#!/bin/bash
# usage: runall.sh <tier> [props...]  — runs checks sequentially, prints a summary line per property
tier=${1:-quick}; shift
props=${@:-C01 C02 C03 C04 C05 C06 C07 C08 C09 C10 C11 C12 C13 C14 C15 C16 C17 C18 C19 C20}
for P in $props; do
  out=$(/verif/bin/gosym check $P $tier 2>&1); rc=$?
  echo "$out" | grep -E "^$P $tier:" | sed "s/^/rc=$rc /"
  echo "$out" | grep -E "^(VIOLATION|KNOWN-FINDING|UNREPRODUCED|CONFORMANCE-MISMATCH|VACUOUS|INCONCLUSIVE|CHECK-ERROR|REPLAY-ERROR)" | cut -c1-220 | sort | uniq -c | sort -rn | head -6
  echo "$out" | grep -E "^  job=" | cut -c1-260 | head -4
done
