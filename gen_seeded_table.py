#!/usr/bin/env python3
"""Rewrites the seeded-changes table in DESIGN.md (between the SEEDED markers) from seeded/*/meta.json."""
import json, glob, re, os
rows = []
for f in sorted(glob.glob('/verif/seeded/*/meta.json')):
    m = json.load(open(f))
    notes = ''
    np = os.path.dirname(f) + '/notes.md'
    what = m.get('summary') or ''
    if not what and os.path.exists(np):
        t = open(np).read()
        # first substantive line
        for line in t.splitlines():
            line = line.strip('# *-').strip()
            if len(line) > 40:
                what = line
                break
    what = re.sub(r'\s+', ' ', what)[:230]
    caught = ', '.join(m.get('caught_by') or []) or '**none**'
    own = 'yes' if m['property'] in (m.get('caught_by') or []) else 'no'
    if m.get('neutralised_on_final_tree'):
        caught += f" (on bc19a71; no longer a breaking change since {m['neutralised_on_final_tree']['by']})"
    rows.append(f"| {m['id']} | {what} | {caught} | {own} |")
table = "| seeded change | what it does / needs | caught by (quick tier) | by its own property's check |\n|---|---|---|---|\n" + "\n".join(rows)
s = open('/verif/DESIGN.md').read()
begin, end = '<!-- SEEDED-BEGIN -->', '<!-- SEEDED-END -->'
if begin not in s:
    s = s.replace('SEEDED_TABLE_PLACEHOLDER', begin + '\n' + end)
i, j = s.index(begin), s.index(end)
s = s[:i] + begin + '\n' + table + '\n' + s[j:]
open('/verif/DESIGN.md', 'w').write(s)
print(len(rows), 'rows')
