#!/usr/bin/env python3
"""Packages validated seeded changes from /tmp/mut/out/<prop>/<mk> into /verif/seeded/<prop>-<mk>/
using the detection results parsed from mutcheck logs."""
import json, os, re, shutil, sys, glob
logs = sys.argv[1:]
text = "".join(open(f).read() for f in logs)
blocks = re.split(r"^=== ", text, flags=re.M)[1:]
history = {}
for b in blocks:
    head, _, body = b.partition("\n")
    m = re.match(r"(C\d+)/(m\d+) → checks (.*)", head)
    if not m:
        continue
    prop, mk, checks = m.group(1), m.group(2), m.group(3).split()
    src = f"/tmp/mut/out/{prop}/{mk}"
    valid = ("demo passes on base: yes" in body and "suite with mutant: passes" in body and "demo fails with mutant: yes" in body)
    results = {}
    for line in body.splitlines():
        mm = re.match(r"rc=(\d+) (C\d+) quick: .*candidates=(\d+) reproduced=(\d+) known=(\d+) violations=(\d+)", line)
        if mm:
            results[mm.group(2)] = {"exit": int(mm.group(1)), "violations": int(mm.group(6))}
    labels = sorted(set(re.findall(r"label=(\S+)", body)))
    dst = f"/verif/seeded/{prop}-{mk}"
    if not valid:
        print(f"{prop}/{mk}: NOT kept ({'patch does not apply' if 'DOES NOT APPLY' in body else 'not a valid seeded change on the repaired tree'})")
        continue
    os.makedirs(dst, exist_ok=True)
    shutil.copy(f"{src}/patch.diff", dst)
    for f in glob.glob(f"{src}/*_test.go"):
        shutil.copy(f, dst + "/demo_test.go.txt")
    notes = open(f"{src}/notes.md").read() if os.path.exists(f"{src}/notes.md") else ""
    h = history.setdefault(f"{prop}-{mk}", {"latest": {}, "rounds": []})
    h["rounds"].append({"checks": results, "labels": labels})
    h["latest"].update(results)
    results = dict(h["latest"])
    caught_by = sorted(c for c, r in results.items() if r["violations"] > 0)
    first = h["rounds"][0]["checks"]
    meta = {
        "property": prop,
        "id": f"{prop}-{mk}",
        "origin": "written by an independent sub-agent that saw only the property text and a scratch worktree",
        "what_it_needs_to_manifest": notes.strip().split("\n\n")[0][:1500] if notes else "",
        "validated": {
            "how": "mutcheck.sh: scratch worktree of /repo HEAD; demo passes on base; patch applied; go build ./... and the full suite pass; demo fails; then patch applied to /repo, checks run, git checkout -- .",
            "demo_passes_on_base": True, "suite_passes_with_change": True, "demo_fails_with_change": True,
        },
        "checks_run": results,
        "caught_by": caught_by,
        "first_round": {"checks": first, "note": "results of the first time this change was run, before any strengthening of the checks it was then run against"},
        "rounds": len(h["rounds"]),
        "labels": labels,
        "demo": "demo_test.go.txt (rename to *_test.go at the place its package clause says, usually the repository root)",
    }
    import subprocess
    head = subprocess.run(["git", "-C", "/repo", "rev-parse", "--short", "HEAD"], capture_output=True, text=True).stdout.strip()
    applies = subprocess.run(["git", "-C", "/repo", "apply", "--check", dst + "/patch.diff"], capture_output=True).returncode == 0
    meta["applies_to"] = {"repo_head": head, "git_apply_check": applies, "note": "patches written against an earlier repaired tree were rebased when a later fix: commit touched the same lines (the original is kept as patch.orig.diff where that happened)"}
    if os.path.exists(f"{src}/patch.orig.diff"):
        shutil.copy(f"{src}/patch.orig.diff", dst)
    neutral = json.load(open("/verif/seeded/NEUTRALISED.json")) if os.path.exists("/verif/seeded/NEUTRALISED.json") else {}
    if meta["id"] in neutral:
        meta["neutralised_on_final_tree"] = neutral[meta["id"]]
    json.dump(meta, open(dst + "/meta.json", "w"), indent=1)
    if notes:
        open(dst + "/notes.md", "w").write(notes)
    print(f"{prop}/{mk}: kept; caught by {caught_by or 'NOTHING'}")
