#!/bin/bash
# usage: refcheck.sh <dir with patch.diff (a behaviour-preserving refactor)> [props...]
# applies the patch to /repo, checks that it builds and that the pinned suite passes, runs the quick
# checks (all 20 by default) and reverts. Any VIOLATION here is a false alarm to triage (or the
# refactor is not behaviour-preserving after all).
set -u
dir=$1; shift
props=${*:-C01 C02 C03 C04 C05 C06 C07 C08 C09 C10 C11 C12 C13 C14 C15 C16 C17 C18 C19 C20}
export GOFLAGS=-mod=mod GOPROXY=off GOSUMDB=off GOTOOLCHAIN=local
cd /repo
git apply $dir/patch.diff || { echo "PATCH DOES NOT APPLY"; exit 3; }
go build ./... || { echo "does not build"; git checkout -- .; exit 4; }
suite=$(go test -vet=off -count=1 ./... 2>&1 | grep -v "no test files")
echo "$suite" | grep -q "FAIL" && { echo "suite: FAILS"; echo "$suite" | grep -E "FAIL|---" | head; } || echo "suite: passes"
cd /verif
for P in $props; do
  out=$(/verif/bin/gosym check $P quick 2>&1); rc=$?
  echo "$out" | grep -E "^$P quick:" | sed "s/^/rc=$rc /" | cut -c1-220
  echo "$out" | grep -E "^  job=" | cut -c1-220 | head -4
  echo "$out" | grep -E "^(UNREPRODUCED|INCONCLUSIVE|CONFORMANCE)" | cut -c1-220 | sort | uniq -c | head -4
done
git -C /repo checkout -- .
git -C /repo status --short | head -3
