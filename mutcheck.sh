#!/bin/bash
# usage: mutcheck.sh <dir with patch.diff + demo_test.go> <prop> [more props...]
# 1. validates the mutant in a scratch worktree of /repo HEAD (suite passes, demo fails with it and passes without)
# 2. applies it to /repo, runs the given checks (quick), and undoes it
set -u
dir=$1; shift
export GOFLAGS=-mod=mod GOPROXY=off GOSUMDB=off GOTOOLCHAIN=local
wt=/tmp/mv-$$
git -C /repo worktree add --detach $wt HEAD >/dev/null 2>&1 || { echo "worktree failed"; exit 2; }
cleanup() { git -C /repo worktree remove --force $wt >/dev/null 2>&1; rm -rf $wt; }
trap cleanup EXIT
cd $wt
demo=$(ls $dir/*_test.go | head -1)
pkgdir=.
if grep -q "^package zhttp" $demo; then pkgdir=zhttp; fi
if grep -q "^package zenv" $demo; then pkgdir=zenv; fi
if grep -q "^package internals" $demo; then pkgdir=internals; fi
if grep -q "^package conf" $demo; then pkgdir=conf; fi
if grep -q "^package i18n" $demo; then pkgdir=i18n; fi
if grep -q "^package zjson" $demo; then pkgdir=parsers/zjson; fi
cp $demo $pkgdir/zz_demo_test.go
racef=""; grep -q "race" $dir/notes.md 2>/dev/null && grep -qi "go test.*-race" $dir/notes.md && racef="-race"
base=$(go test $racef -vet=off -count=1 ./$pkgdir/ 2>&1 | tail -3)
echo "$base" | grep -q "^ok" && echo "demo passes on base: yes" || { echo "demo passes on base: NO"; echo "$base"; }
if ! git apply $dir/patch.diff 2>/tmp/apply.err; then echo "PATCH DOES NOT APPLY: $(head -3 /tmp/apply.err)"; exit 3; fi
rm $pkgdir/zz_demo_test.go
go build ./... || { echo "mutant does not build"; exit 4; }
suite=$(go test -vet=off -count=1 ./... 2>&1 | grep -v "no test files")
echo "$suite" | grep -q "FAIL" && { echo "suite with mutant: FAILS"; echo "$suite" | grep FAIL | head; } || echo "suite with mutant: passes"
cp $demo $pkgdir/zz_demo_test.go
m=$(go test $racef -vet=off -count=1 ./$pkgdir/ 2>&1 | tail -3)
echo "$m" | grep -q "^ok" && echo "demo fails with mutant: NO (passes)" || echo "demo fails with mutant: yes"
cd /verif
git -C /repo apply $dir/patch.diff || { echo "apply to /repo failed"; exit 5; }
for P in "$@"; do
  out=$(/verif/bin/gosym check $P quick 2>&1); rc=$?
  echo "$out" | grep -E "^$P quick:" | sed "s/^/rc=$rc /" | cut -c1-220
  echo "$out" | grep -E "^  job=" | cut -c1-200 | head -3
  echo "$out" | grep -E "^(UNREPRODUCED|INCONCLUSIVE|CONFORMANCE)" | cut -c1-200 | sort | uniq -c | head -3
done
git -C /repo checkout -- .
git -C /repo status --short | head -3
