#!/bin/sh
# builds the gosym engine from files on disk only (x/tools v0.29.0 from the module cache)
set -e
cd /verif/engine
export GOFLAGS=-mod=mod GOPROXY=off GOSUMDB=off GOTOOLCHAIN=local
go build -o /verif/bin/gosym ./cmd/gosym
echo "gosym built"
