#!/usr/bin/env python3
"""Packages the behaviour-preserving refactors (/tmp/refs/<id>/{patch.diff,notes.md}) and the result of
running all 20 checks on them (refcheck.sh log, batched) into /verif/refactors/<id>/."""
import json, os, re, shutil, sys
log = open(sys.argv[1]).read()
blocks = re.split(r"^=== batch ", log, flags=re.M)[1:]
for b in blocks:
    head, _, body = b.partition("\n")
    m = re.match(r"(b\d+): (.*)", head)
    batch, members = m.group(1), m.group(2).split()
    results = {}
    for line in body.splitlines():
        mm = re.match(r"rc=(\d+) (C\d+) quick: .*violations=(\d+) conformed=(\d+)/(\d+) inconclusive=(\d+)", line)
        if mm:
            results[mm.group(2)] = {"exit": int(mm.group(1)), "violations": int(mm.group(3)), "conformed": f"{mm.group(4)}/{mm.group(5)}", "inconclusive": int(mm.group(6))}
    suite = "suite: passes" in body
    silent = len(results) == 20 and all(r["exit"] == 0 and r["violations"] == 0 for r in results.values())
    notes = [l for l in body.splitlines() if re.search(r"CONFORMANCE|UNREPRODUCED|INCONCLUSIVE|VIOLATION|job=", l)]
    for mid in members:
        dst = f"/verif/refactors/{mid}"
        os.makedirs(dst, exist_ok=True)
        shutil.copy(f"/tmp/refs/{mid}/patch.diff", dst)
        if os.path.exists(f"/tmp/refs/{mid}/notes.md"):
            shutil.copy(f"/tmp/refs/{mid}/notes.md", dst)
        json.dump({"id": mid, "written_for": mid.split("-")[0],
                   "origin": "behaviour-preserving refactor written by an independent sub-agent that saw only the property text and a scratch worktree; the author's own differential tests are described in notes.md",
                   "run_in_batch": batch, "batch_members": members, "suite_passes_with_batch": suite,
                   "checks_run": results, "all_20_checks_silent": silent, "remarks": notes[:8]}, open(dst + "/meta.json", "w"), indent=1)
        print(mid, batch, "silent" if silent else "NOT SILENT", len(results))

# applicability to the final tree
import subprocess, glob
head = subprocess.run(["git", "-C", "/repo", "rev-parse", "--short", "HEAD"], capture_output=True, text=True).stdout.strip()
for f in sorted(glob.glob("/verif/refactors/*/meta.json")):
    m = json.load(open(f))
    d = os.path.dirname(f)
    ok = subprocess.run(["git", "-C", "/repo", "apply", "--check", d + "/patch.diff"], capture_output=True).returncode == 0
    m["applies_to"] = {"written_and_run_against": "4594d2d (the repaired tree before the last two fix: commits)" if int(m["run_in_batch"][1:]) < 13 else head,
                       "repo_head": head, "git_apply_check_on_repo_head": ok,
                       "note": "the last two fix: commits (4658863, bc19a71) rewrote parts of struct.go; refactors of those lines apply to 4594d2d only (those eleven were rebased and run again on the final tree, batches b13..b23)"}
    json.dump(m, open(f, "w"), indent=1)
