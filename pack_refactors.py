#!/usr/bin/env python3
"""Packages the behaviour-preserving refactors (/tmp/refs/<id>/{patch.diff,notes.md}) and the result of
running all 20 checks on them (refcheck.sh log, batched) into /verif/refactors/<id>/."""
import json, os, re, shutil, sys
log = open(sys.argv[1]).read()
blocks = re.split(r"^=== batch ", log, flags=re.M)[1:]
for b in blocks:
    head, _, body = b.partition("\n")
    m = re.match(r"(b\d+): (.*)", head)
    batch, members = m.group(1), m.group(2).split()
    results = {}
    for line in body.splitlines():
        mm = re.match(r"rc=(\d+) (C\d+) quick: .*violations=(\d+) conformed=(\d+)/(\d+) inconclusive=(\d+)", line)
        if mm:
            results[mm.group(2)] = {"exit": int(mm.group(1)), "violations": int(mm.group(3)), "conformed": f"{mm.group(4)}/{mm.group(5)}", "inconclusive": int(mm.group(6))}
    suite = "suite: passes" in body
    silent = len(results) == 20 and all(r["exit"] == 0 and r["violations"] == 0 for r in results.values())
    notes = [l for l in body.splitlines() if re.search(r"CONFORMANCE|UNREPRODUCED|INCONCLUSIVE|VIOLATION|job=", l)]
    for mid in members:
        dst = f"/verif/refactors/{mid}"
        os.makedirs(dst, exist_ok=True)
        shutil.copy(f"/tmp/refs/{mid}/patch.diff", dst)
        if os.path.exists(f"/tmp/refs/{mid}/notes.md"):
            shutil.copy(f"/tmp/refs/{mid}/notes.md", dst)
        json.dump({"id": mid, "written_for": mid.split("-")[0],
                   "origin": "behaviour-preserving refactor written by an independent sub-agent that saw only the property text and a scratch worktree; the author's own differential tests are described in notes.md",
                   "run_in_batch": batch, "batch_members": members, "suite_passes_with_batch": suite,
                   "checks_run": results, "all_20_checks_silent": silent, "remarks": notes[:8]}, open(dst + "/meta.json", "w"), indent=1)
        print(mid, batch, "silent" if silent else "NOT SILENT", len(results))
