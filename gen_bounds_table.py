#!/usr/bin/env python3
"""Regenerates the third column of the per-property table in DESIGN.md section 10.6 from harness/bounds.json."""
import json, re
b = json.load(open('/verif/harness/bounds.json'))
p = '/verif/DESIGN.md'
lines = open(p).read().split('\n')
out = []
inside = False
for l in lines:
    if l.startswith('### 10.6'):
        inside = True
    elif l.startswith('#'):
        inside = False
    m = inside and re.match(r'^\| (C\d\d) \| (.*?) \| (.*) \|$', l)
    if m and m.group(1) in b:
        q = b[m.group(1)]['quick'].replace('|', '/')
        if len(q) > 900:
            q = q[:900] + '…'
        l = '| %s | %s | %s |' % (m.group(1), m.group(2), q)
    out.append(l)
open(p, 'w').write('\n'.join(out))
