package symterp

import (
	"fmt"
	"go/token"
	"go/types"
	"runtime"
	"sort"
	"strings"
	"time"

	"golang.org/x/tools/go/ssa"
)

// Tier: 0 quick, 1 thorough (what zzverif.Tier() returns under the engine).
var Tier = 0

var sharedGlobals = map[*ssa.Global]*value{}
var sharedInitDone = map[string]bool{}

// packages whose init functions are interpreted (pure Go, immutable tables)
var initAllowed = map[string]bool{"strings": true, "unicode": true, "unicode/utf8": true, "strconv": true,
	"errors": false, "math": true, "math/bits": true, "sort": true, "slices": true, "maps": true, "cmp": true,
	"internal/stringslite": true, "internal/bytealg": false, "time": true, "unicode/utf16": true,
	"golang.org/x/exp/constraints": true, "internal/itoa": true, "io": true}

type Machine struct {
	Prog    *ssa.Program
	sizes   types.Sizes
	userIni []*ssa.Function
	MaxPaths int
	SolverTimeoutMS int
}

func NewMachine(prog *ssa.Program) *Machine {
	return &Machine{Prog: prog, sizes: &types.StdSizes{WordSize: 8, MaxAlign: 8}, MaxPaths: 200000, SolverTimeoutMS: 10000}
}

func isUser(path string) bool { return strings.HasPrefix(path, "github.com/Oudwins/zog") }

func (m *Machine) fresh(e *Explorer) *interpreter {
	i := &interpreter{prog: m.Prog, globals: make(map[*ssa.Global]*value), sizes: m.sizes, goroutines: 1}
	i.runtimeErrorString = m.Prog.ImportedPackage("runtime").Type("errorString").Object().Type()
	initReflectOnce(i)
	for _, pkg := range m.Prog.AllPackages() {
		user := isUser(pkg.Pkg.Path())
		for _, mem := range pkg.Members {
			if g, ok := mem.(*ssa.Global); ok {
				if !user {
					if c, ok := sharedGlobals[g]; ok {
						i.globals[g] = c
						continue
					}
				}
				cell := zero(mustDeref(g.Type()))
				i.globals[g] = &cell
				if !user {
					sharedGlobals[g] = &cell
				}
			}
		}
	}
	e.pools = map[*value]*pool{}
	e.builders = map[*value]string{}
	e.env = map[string]value{}
	e.onces = map[*value]bool{}
	e.syncMaps = nil
	e.interp = i
	return i
}

// initOrder: user packages in dependency order (imports first)
func (m *Machine) initPkgs(i *interpreter, root *ssa.Package) {
	seen := map[*types.Package]bool{}
	var visit func(p *types.Package)
	visit = func(p *types.Package) {
		if seen[p] {
			return
		}
		seen[p] = true
		for _, imp := range p.Imports() {
			visit(imp)
		}
		sp := m.Prog.Package(p)
		if sp == nil {
			return
		}
		path := p.Path()
		if isUser(path) {
			if f := sp.Func("init"); f != nil {
				callInitBody(i, f)
			}
		} else if initAllowed[path] && !sharedInitDone[path] {
			sharedInitDone[path] = true
			if f := sp.Func("init"); f != nil {
				callInitBody(i, f)
			}
		}
	}
	visit(root.Pkg)
}

// callInitBody runs a package init function but not the inits of its imports (we order them
// ourselves): calls to other packages' init are skipped in callSSA via skipInit.
func callInitBody(i *interpreter, f *ssa.Function) {
	call(i, nil, token.NoPos, f, nil)
}

type ExploreOpts struct {
	MaxViolPerLabel int
	MaxSamples      int
	MaxPaths        int
	TimeBudget      time.Duration
}

// wantSample: which paths are replayed natively as conformance samples: the first n of a job
// and then the paths number n*3, n*9, n*27, ... (neighbouring DFS paths differ in their last
// decisions only; the spread reaches the other branches of early decisions), at most 3n in all.
func wantSample(idx, have, n int) bool {
	if have < n && idx < n {
		return true
	}
	if n == 0 || have >= 3*n {
		return false
	}
	for k := n * 3; k <= idx; k *= 3 {
		if k == idx {
			return true
		}
	}
	return have < n && idx >= n // a skipped early path (inconclusive, violated) is made up for
}

// Explore runs fn(args...) on every path.
func (m *Machine) Explore(root *ssa.Package, fn *ssa.Function, args []value, job string, o ExploreOpts) *JobResult {
	res := &JobResult{Job: job, Covers: map[string]int{}, Asserts: map[string]int{}}
	e := &Explorer{z: newSolver(m.SolverTimeoutMS), job: job, declared: map[string]bool{}, defs: map[string]string{},
		res: res, funcs: map[string]bool{}, MaxViolPerLabel: o.MaxViolPerLabel, MaxSamples: o.MaxSamples, secondAsked: map[string]int{}}
	if e.MaxViolPerLabel == 0 {
		e.MaxViolPerLabel = 2
	}
	defer e.z.close()
	cur = e
	t0 := time.Now()
	maxPaths := o.MaxPaths
	if maxPaths == 0 {
		maxPaths = m.MaxPaths
	}
	for {
		e.resetPath()
		i := m.fresh(e)
		completed := false
		func() {
			defer func() {
				if r := recover(); r != nil {
					stack := tailStack(6)
					CallStack, panicStack = nil, nil
					switch p := r.(type) {
					case pathAbort:
						if strings.HasPrefix(p.why, "engine:") || strings.HasPrefix(p.why, "unsupported") {
							e.noteInconclusive(p.why)
						}
						if p.why == "violation" || strings.HasPrefix(p.why, "assertion can only") {
							completed = true
						}
					case targetPanic:
						// a panic escaped the harness: candidate violation (replayed natively)
						msg := "panic: " + toStringSafe(p.v)
						script := e.sampleModel()
						e.trace = append(e.trace, "panic")
						e.recordViolation("unexpected-panic", script, msg, stack)
						completed = true
					case runtime.Error:
						msg := "runtime: " + p.Error()
						if looksLikeEngineBug(p) {
							e.noteInconclusive("engine: " + msg + " @ " + strings.Join(stack, " < "))
						} else {
							script := e.sampleModel()
							e.recordViolation("unexpected-panic", script, msg, stack)
							completed = true
						}
					default:
						e.noteInconclusive(fmt.Sprintf("engine: %v @ %s", r, strings.Join(stack, " < ")))
					}
				}
			}()
			m.initPkgs(i, root)
			call(i, nil, token.NoPos, fn, args)
			completed = true
		}()
		res.Paths++
		if completed && wantSample(res.Paths-1, len(res.Samples), e.MaxSamples) && !e.inconcl && !e.violated && !e.ufUsed && !hasPoolChoice(e.sched) {
			if script := e.sampleModel(); script != nil {
				res.Samples = append(res.Samples, Sample{Job: job, Script: script, Trace: append([]string{}, e.trace...), Sched: append([]string{}, e.sched...)})
			}
		}
		if res.Paths >= maxPaths || (o.TimeBudget > 0 && time.Since(t0) > o.TimeBudget) {
			if e.next() {
				res.Truncated = true
				res.Inconclusive = append(res.Inconclusive, fmt.Sprintf("%s: exploration truncated after %d paths", job, res.Paths))
			}
			break
		}
		if !e.next() {
			break
		}
	}
	res.WallMS = time.Since(t0).Milliseconds()
	res.SolverMS /= 1000
	res.Funcs = sortedKeysS(e.funcs)
	if e.z.Errors > 0 {
		res.Inconclusive = append(res.Inconclusive, fmt.Sprintf("%s: %d solver error lines", job, e.z.Errors))
	}
	return res
}

// RunConcrete runs fn without a solver-backed exploration (job enumeration etc.).
func (m *Machine) RunConcrete(root *ssa.Package, fn *ssa.Function, args []value) (result value, err error) {
	res := &JobResult{Covers: map[string]int{}, Asserts: map[string]int{}}
	e := &Explorer{job: "concrete", declared: map[string]bool{}, defs: map[string]string{}, res: res, funcs: map[string]bool{}}
	cur = e
	e.resetPath()
	i := m.fresh(e)
	defer func() {
		if r := recover(); r != nil {
			err = fmt.Errorf("concrete run failed: %v @ %s", r, strings.Join(tailStack(6), " < "))
			CallStack = nil
		}
	}()
	m.initPkgs(i, root)
	return call(i, nil, token.NoPos, fn, args), nil
}

func StringsOf(v value) []string {
	var out []string
	for _, x := range v.([]value) {
		out = append(out, x.(string))
	}
	return out
}

func tailStack(n int) []string {
	if panicStack != nil {
		cs := panicStack
		k := len(cs)
		if k > n {
			k = n
		}
		out := make([]string, 0, k)
		for j := len(cs) - 1; j >= len(cs)-k; j-- {
			out = append(out, cs[j])
		}
		return out
	}
	k := len(CallStack)
	if k > n {
		k = n
	}
	out := make([]string, 0, k)
	for j := len(CallStack) - 1; j >= len(CallStack)-k; j-- {
		out = append(out, CallStack[j])
	}
	return out
}

func looksLikeEngineBug(err runtime.Error) bool {
	s := err.Error()
	// interface-conversion errors mentioning interpreter value types are interpreter bugs
	return strings.Contains(s, "symterp.")
}

func toStringSafe(v value) (s string) {
	defer func() {
		if r := recover(); r != nil {
			s = fmt.Sprintf("%v", v)
		}
	}()
	if it, ok := v.(iface); ok {
		if str, ok := it.v.(string); ok {
			return str
		}
		if st, ok := it.v.(*value); ok && st != nil {
			return fmt.Sprintf("%v", toNative(*st))
		}
		return fmt.Sprintf("%v", toNative(it.v))
	}
	return fmt.Sprintf("%v", toNative(v))
}

// ordered keys helper for deterministic + permutable map ranges
func sortedKeys(m map[value]value) []value {
	ks := make([]value, 0, len(m))
	for k := range m {
		ks = append(ks, k)
	}
	sort.Slice(ks, func(i, j int) bool { return fmt.Sprint(ks[i]) < fmt.Sprint(ks[j]) })
	return ks
}

type orderedMapIter struct {
	m    map[value]value
	keys []value
	i    int
}

func (it *orderedMapIter) next() tuple {
	for it.i < len(it.keys) {
		k := it.keys[it.i]
		it.i++
		if v, ok := it.m[k]; ok { // entries deleted during iteration are skipped
			return []value{true, k, v}
		}
	}
	return []value{false, nil, nil}
}

// permute keys by a sequence of choices (Lehmer code): one schedule per permutation
func permute(keys []value, schedule bool) []value {
	if !schedule || cur == nil || cur.z == nil || !cur.mapOrder || len(keys) < 2 {
		return keys
	}
	if len(keys) > MaxPermute {
		cur.approx(fmt.Sprintf("map range over %d keys: order not permuted (bound %d)", len(keys), MaxPermute))
		return keys
	}
	rest := append([]value{}, keys...)
	var out []value
	for len(rest) > 0 {
		i := cur.choose(len(rest), "maporder")
		out = append(out, rest[i])
		rest = append(rest[:i], rest[i+1:]...)
	}
	var ks []string
	for _, k := range out {
		ks = append(ks, fmt.Sprint(k))
	}
	cur.sched = append(cur.sched, "maporder:"+strings.Join(ks, ","))
	return out
}

var MaxPermute = 3

func JobArgs(job string) []value { return []value{job} }

// pool hand-back choices cannot be forced on the real sync.Pool, so such paths are not used
// as conformance samples
func hasPoolChoice(sched []string) bool {
	for _, s := range sched {
		if strings.HasPrefix(s, "pool-get:") {
			return true
		}
	}
	return false
}
