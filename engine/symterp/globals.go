package symterp

var rangeSchedule bool
