package symterp

import (
	"fmt"
	"go/token"
	"go/types"
	"hash/fnv"
	"math"
	"reflect"
	"regexp"
	"sort"
	"strconv"
	"strings"
	"time"

	"golang.org/x/tools/go/ssa"
)

type ssa_Function = ssa.Function

const apiPkg = "github.com/Oudwins/zog/zzverif"

func copyVal(v value) value {
	switch v := v.(type) {
	case structure:
		a := make(structure, len(v))
		for i := range v {
			a[i] = copyVal(v[i])
		}
		return a
	case array:
		a := make(array, len(v))
		for i := range v {
			a[i] = copyVal(v[i])
		}
		return a
	}
	return v
}

// opaque string produced by a formatting function of a symbolic number: only the inverse
// parser, emptiness and trimming are understood (everything else aborts as unsupported).
type opaqueStr struct {
	kind string // itoa | ftoa
	arg  value
}

func symToken(t string) string {
	h := fnv.New32a()
	h.Write([]byte(t))
	return fmt.Sprintf("«sym:%08x»", h.Sum32())
}

// toNative renders an interpreter value for native fmt; symbolic leaves become stable tokens.
func toNative(v value) any {
	switch x := v.(type) {
	case iface:
		if x.t == nil {
			return nil
		}
		if x.t == errorType {
			if s, ok := x.v.(string); ok {
				return fmt.Errorf("%s", s)
			}
		}
		return toNative(x.v)
	case []value:
		out := make([]any, len(x))
		for i := range x {
			out[i] = toNative(x[i])
		}
		return out
	case *value:
		if x == nil {
			return nil
		}
		return fmt.Sprintf("&%v", toNative(*x))
	case structure:
		out := make([]any, len(x))
		for i := range x {
			out[i] = toNative(x[i])
		}
		return out
	case map[value]value:
		out := map[string]any{}
		for k, e := range x {
			out[fmt.Sprint(toNative(k))] = toNative(e)
		}
		return out
	case symI:
		cur.approx("fmt of a symbolic value rendered as an opaque token")
		return symToken(x.t)
	case symF:
		cur.approx("fmt of a symbolic value rendered as an opaque token")
		return symToken(x.t)
	case symB:
		cur.approx("fmt of a symbolic value rendered as an opaque token")
		return symToken(x.t)
	case symStr:
		cur.approx("fmt of a symbolic value rendered as an opaque token")
		return symToken(lenTerm(x.n) + fmt.Sprint(len(x.b)))
	case opaqueStr:
		cur.approx("fmt of a symbolic value rendered as an opaque token")
		return symToken(fmt.Sprint(x.arg))
	case rtype:
		if x.t == nil {
			return "<nil>"
		}
		return x.t.String()
	case *ssa.Function, *closure:
		return "<func>"
	}
	return v
}

// pool models sync.Pool on one P: a private slot plus a shared list (head = last pushed).
type pool struct {
	private value
	shared  []value
	choices int
}

// poolOf: the model lives in the sync.Pool value itself (its `local` slot), so that assigning
// a fresh sync.Pool{} to the variable (internals.ClearPools) really empties it.
func poolOf(p *value, create bool) *pool {
	st := (*p).(structure)
	if pl, ok := st[1].(*pool); ok && pl != nil {
		return pl
	}
	if !create {
		return nil
	}
	pl := &pool{}
	st[1] = pl
	return pl
}

// MaxPoolChoices bounds how many Get calls per pool are schedule choice points on one path.
var MaxPoolChoices = 1

func strArg(v value) string {
	s, ok := v.(string)
	if !ok {
		panic(pathAbort{fmt.Sprintf("unsupported: native string function on symbolic string (%T)", v)})
	}
	return s
}

func errVal(msg string) value { return iface{t: errorType, v: msg} }

func (e *Explorer) newND(name, kind, sort string) (string, string) {
	n := e.ndName(name)
	t := e.declare(n, sort)
	e.vars = append(e.vars, ndVar{Name: n, Kind: kind, term: t})
	return n, t
}

func isHarnessPkg(path string) bool { return strings.HasPrefix(path, apiPkg) }
func isZogPkg(path string) bool {
	return strings.HasPrefix(path, "github.com/Oudwins/zog") && !isHarnessPkg(path)
}

func init() {
	api := func(name string, f externalFn) { externals[apiPkg+"."+name] = f }
	intND := func(kind string, bk types.BasicKind, w int) externalFn {
		return func(fr *frame, args []value) value {
			_, t := cur.newND(args[0].(string), kind, bvSort(w))
			return symI{w, kindSigned(bk), bk, t}
		}
	}
	api("Int", intND("int", types.Int, 64))
	api("Int64", intND("int64", types.Int64, 64))
	api("Int32", intND("int32", types.Int32, 32))
	api("Byte", intND("byte", types.Uint8, 8))
	api("Bool", func(fr *frame, args []value) value {
		_, t := cur.newND(args[0].(string), "bool", "Bool")
		return symB{t}
	})
	api("Float64", func(fr *frame, args []value) value {
		_, t := cur.newND(args[0].(string), "float64", bvSort(64))
		return symF{bits: 64, t: "((_ to_fp 11 53) " + t + ")"}
	})
	api("Float32", func(fr *frame, args []value) value {
		_, t := cur.newND(args[0].(string), "float32", bvSort(32))
		return symF{bits: 32, t: "((_ to_fp 8 24) " + t + ")"}
	})
	api("String", func(fr *frame, args []value) value {
		n := cur.ndName(args[0].(string))
		s, v := newSymStr(n, args[1].(int))
		v.Name = n
		cur.vars = append(cur.vars, v)
		if len(s.b) == 0 {
			return ""
		}
		return s
	})
	api("Choice", func(fr *frame, args []value) value {
		n := cur.ndName(args[0].(string))
		k := cur.choose(args[1].(int), n)
		cur.vars = append(cur.vars, ndVar{Name: n, Kind: "choice", val: strconv.Itoa(k)})
		return k
	})
	api("Assume", func(fr *frame, args []value) value { cur.assumeV(args[0]); return nil })
	api("Assert", func(fr *frame, args []value) value { cur.assert(args[0], args[1].(string)); return nil })
	api("Fail", func(fr *frame, args []value) value { cur.assert(false, args[0].(string)); return nil })
	api("Cover", func(fr *frame, args []value) value {
		cur.res.Covers[args[0].(string)]++
		cur.trace = append(cur.trace, "cover:"+args[0].(string))
		return nil
	})
	api("Obs", func(fr *frame, args []value) value {
		if s, ok := args[0].(string); ok {
			cur.trace = append(cur.trace, "obs:"+s)
		} else {
			cur.trace = append(cur.trace, "obs:?")
		}
		return nil
	})
	api("B2I", func(fr *frame, args []value) value {
		if b, ok := args[0].(symB); ok {
			return newI(64, true, types.Int, mkIte(b.t, bvConst(1, 64), bvConst(0, 64)))
		}
		if args[0].(bool) {
			return 1
		}
		return 0
	})
	api("Ite", func(fr *frame, args []value) value {
		if b, ok := args[0].(symB); ok {
			x, _ := liftI(args[1])
			y, _ := liftI(args[2])
			return newI(64, true, types.Int, mkIte(b.t, x.t, y.t))
		}
		if args[0].(bool) {
			return args[1]
		}
		return args[2]
	})
	api("IteB", func(fr *frame, args []value) value {
		c, _ := liftB(args[0])
		x, _ := liftB(args[1])
		y, _ := liftB(args[2])
		return boolVal(mkIte(c.t, x.t, y.t))
	})
	api("And", func(fr *frame, args []value) value {
		x, _ := liftB(args[0])
		y, _ := liftB(args[1])
		return boolVal(mkAnd(x.t, y.t))
	})
	api("Or", func(fr *frame, args []value) value {
		x, _ := liftB(args[0])
		y, _ := liftB(args[1])
		return boolVal(mkOr(x.t, y.t))
	})
	api("Not", func(fr *frame, args []value) value { return symNotV(args[0]) })
	api("Implies", func(fr *frame, args []value) value {
		x, _ := liftB(args[0])
		y, _ := liftB(args[1])
		return boolVal(mkOr(mkNot(x.t), y.t))
	})
	api("Tier", func(fr *frame, args []value) value { return Tier })
	api("Native", func(fr *frame, args []value) value { return false })
	api("SetTier", func(fr *frame, args []value) value { return nil })
	api("PoolChoice", func(fr *frame, args []value) value { cur.poolPick = args[0].(bool); return nil })
	api("MapOrderChoice", func(fr *frame, args []value) value { cur.mapOrder = args[0].(bool); return nil })
	api("Concrete", func(fr *frame, args []value) value { return !deepContainsSym(args[0], 0) })
	api("Itoa", func(fr *frame, args []value) value {
		if n, ok := args[0].(int); ok {
			return strconv.Itoa(n)
		}
		return opaqueStr{"itoa", args[0]}
	})
	api("Ftoa", func(fr *frame, args []value) value {
		if f, ok := args[0].(float64); ok {
			return strconv.FormatFloat(f, 'g', -1, 64)
		}
		return opaqueStr{"ftoa", args[0]}
	})
	api("Trunc", func(fr *frame, args []value) value {
		if f, ok := args[0].(float64); ok {
			return math.Trunc(f)
		}
		return newF(64, "(fp.roundToIntegral RTZ "+args[0].(symF).t+")")
	})
	api("IsNaN", func(fr *frame, args []value) value {
		if f, ok := args[0].(float64); ok {
			return f != f
		}
		return boolVal("(fp.isNaN " + args[0].(symF).t + ")")
	})
	api("IsInf", func(fr *frame, args []value) value {
		if f, ok := args[0].(float64); ok {
			return math.IsInf(f, 0)
		}
		return boolVal("(fp.isInfinite " + args[0].(symF).t + ")")
	})
	api("SameBits", func(fr *frame, args []value) value {
		a, _ := liftF(args[0])
		b, _ := liftF(args[1])
		if !isSymScalar(args[0]) && !isSymScalar(args[1]) {
			return math.Float64bits(args[0].(float64)) == math.Float64bits(args[1].(float64))
		}
		// bit identity: equal as SMT values (NaN = NaN, +0 != -0)
		return boolVal(fmt.Sprintf("(= %s %s)", a.t, b.t))
	})

	for k, v := range map[string]externalFn{
		"(*sync.Pool).Get": func(fr *frame, args []value) value {
			p := args[0].(*value)
			pl := poolOf(p, false)
			if pl != nil && (pl.private != nil || len(pl.shared) > 0) {
				// candidates in the order the runtime would hand them back: the per-P private
				// slot first, then the shared list from its head (most recently pushed)
				var cands []int // -2: private, i>=0: index in shared
				if pl.private != nil {
					cands = append(cands, -2)
				}
				for i := len(pl.shared) - 1; i >= 0; i-- {
					cands = append(cands, i)
				}
				k := 0
				if cur.poolPick && pl.choices < MaxPoolChoices {
					pl.choices++
					k = cur.choose(len(cands)+1, "pool") // last alternative: New()
					cur.sched = append(cur.sched, fmt.Sprintf("pool-get:%d/%d", k, len(cands)))
				}
				if k < len(cands) {
					var it value
					if cands[k] == -2 {
						it, pl.private = pl.private, nil
					} else {
						i := cands[k]
						it = pl.shared[i]
						pl.shared = append(pl.shared[:i:i], pl.shared[i+1:]...)
					}
					if o := objPtr(it); o != nil {
						delete(cur.pooledObjs, o)
					}
					return it
				}
			}
			st := (*p).(structure)
			newFn := st[len(st)-1]
			if isNilFunc(newFn) {
				return iface{}
			}
			return call(fr.i, fr, token.NoPos, newFn, nil)
		},
		"(*sync.Pool).Put": func(fr *frame, args []value) value {
			p := args[0].(*value)
			pl := poolOf(p, true)
			if it, ok := args[1].(iface); ok && it.t == nil {
				return nil // Put(nil) is a no-op
			}
			if o := objPtr(args[1]); o != nil {
				if cur.pooledObjs[o] && cur.freezeOn {
					cur.monitorViolation(fr, "C08:object-returned-to-the-pool-twice")
				}
				cur.pooledObjs[o] = true
			}
			if pl.private == nil {
				pl.private = args[1]
			} else {
				pl.shared = append(pl.shared, args[1])
			}
			return nil
		},
		"fmt.Sprintf": func(fr *frame, args []value) value {
			var as []any
			for _, a := range args[1].([]value) {
				as = append(as, toNative(a))
			}
			return fmt.Sprintf(strArg(args[0]), as...)
		},
		"fmt.Sprint": func(fr *frame, args []value) value {
			var as []any
			for _, a := range args[0].([]value) {
				as = append(as, toNative(a))
			}
			return fmt.Sprint(as...)
		},
		"fmt.Errorf": func(fr *frame, args []value) value {
			var as []any
			for _, a := range args[1].([]value) {
				as = append(as, toNative(a))
			}
			return errVal(fmt.Errorf(strArg(args[0]), as...).Error())
		},
		"strings.Contains": func(fr *frame, a []value) value { return symContains(a[0], a[1]) },
		"strings.ReplaceAll": func(fr *frame, a []value) value {
			if _, concrete := a[2].(string); !concrete {
				// a symbolic replacement text (a message rendered around a symbolic value): the token fmt's %v gives
				return strings.ReplaceAll(strArg(a[0]), strArg(a[1]), fmt.Sprint(toNative(a[2])))
			}
			return strings.ReplaceAll(strArg(a[0]), strArg(a[1]), strArg(a[2]))
		},
		"strings.ToLower": func(fr *frame, a []value) value { return strings.ToLower(strArg(a[0])) },
		"strings.Index":   func(fr *frame, a []value) value { return strings.Index(strArg(a[0]), strArg(a[1])) },
		"strings.TrimSpace": func(fr *frame, a []value) value {
			switch s := a[0].(type) {
			case string:
				return strings.TrimSpace(s)
			case opaqueStr:
				return s
			}
			fn := fr.i.prog.ImportedPackage("strings").Func("TrimSpace")
			return callSSABody(fr.i, fr, fn, a)
		},
		"regexp.MustCompile": func(fr *frame, a []value) value {
			re := regexp.MustCompile(strArg(a[0]))
			var v value = structure{nativeBox{re}}
			return &v
		},
		"(*regexp.Regexp).MatchString": func(fr *frame, a []value) value {
			re := (*a[0].(*value)).(structure)[0].(nativeBox).v.(*regexp.Regexp)
			return re.MatchString(strArg(a[1]))
		},
		"(*regexp.Regexp).String": func(fr *frame, a []value) value {
			re := (*a[0].(*value)).(structure)[0].(nativeBox).v.(*regexp.Regexp)
			return re.String()
		},
		"(*regexp.Regexp).LiteralPrefix": func(fr *frame, a []value) value {
			re := (*a[0].(*value)).(structure)[0].(nativeBox).v.(*regexp.Regexp)
			p, complete := re.LiteralPrefix()
			return tuple{p, complete}
		},
		"(*regexp.Regexp).FindString": func(fr *frame, a []value) value {
			re := (*a[0].(*value)).(structure)[0].(nativeBox).v.(*regexp.Regexp)
			return re.FindString(strArg(a[1]))
		},
		"(*regexp.Regexp).FindStringIndex": func(fr *frame, a []value) value {
			re := (*a[0].(*value)).(structure)[0].(nativeBox).v.(*regexp.Regexp)
			loc := re.FindStringIndex(strArg(a[1]))
			if loc == nil {
				return []value(nil)
			}
			return []value{loc[0], loc[1]}
		},
		"(*regexp.Regexp).NumSubexp": func(fr *frame, a []value) value {
			re := (*a[0].(*value)).(structure)[0].(nativeBox).v.(*regexp.Regexp)
			return re.NumSubexp()
		},
		"regexp.QuoteMeta": func(fr *frame, a []value) value { return regexp.QuoteMeta(strArg(a[0])) },
		"(*strings.Builder).Reset": func(fr *frame, args []value) value {
			cur.builders[args[0].(*value)] = ""
			return nil
		},
		"(*strings.Builder).WriteString": func(fr *frame, args []value) value {
			s := args[1]
			if _, ok := s.(string); !ok {
				s = toNative(s).(string)
			}
			cur.builders[args[0].(*value)] += s.(string)
			return tuple{len(s.(string)), iface{}}
		},
		"(*strings.Builder).String": func(fr *frame, args []value) value { return cur.builders[args[0].(*value)] },
		"(*strings.Builder).Len":    func(fr *frame, args []value) value { return len(cur.builders[args[0].(*value)]) },
		"(reflect.Value).Addr": func(fr *frame, args []value) value {
			a := rV2A(args[0])
			if a == nil {
				panic(targetPanic{iface{fr.i.runtimeErrorString, "reflect.Value.Addr of unaddressable value"}})
			}
			return makeReflectValueRO(types.NewPointer(rV2T(args[0]).t), a, rVRO(args[0]))
		},
		"(reflect.Value).FieldByName": func(fr *frame, args []value) value {
			t := rV2T(args[0]).t
			if _, ok := t.Underlying().(*types.Struct); !ok {
				panic(targetPanic{iface{fr.i.runtimeErrorString, "reflect: call of reflect.Value.FieldByName on " + reflectKind(t).String() + " Value"}})
			}
			index := fieldPathByName(t, args[1].(string))
			if index == nil {
				return structure{rtype{nil}, nil, (*value)(nil), false}
			}
			return reflectFieldByIndex(fr, args[0], index)
		},
		"(reflect.rtype).FieldByName": func(fr *frame, args []value) value {
			t := args[0].(rtype).t
			name := args[1].(string)
			sfT := fr.i.prog.ImportedPackage("reflect").Type("StructField").Type()
			z := zero(sfT).(structure)
			index := fieldPathByName(t, name)
			if index == nil {
				return tuple{z, false}
			}
			ct := t
			var st *types.Struct
			for k, ix := range index {
				if k > 0 {
					if pt, ok := ct.Underlying().(*types.Pointer); ok {
						ct = pt.Elem()
					}
				}
				st = ct.Underlying().(*types.Struct)
				if k < len(index)-1 {
					ct = st.Field(ix).Type()
				}
			}
			i := index[len(index)-1]
			z[0] = name
			if !st.Field(i).Exported() {
				z[1] = st.Field(i).Pkg().Path()
			}
			z[2] = makeReflectType(rtype{st.Field(i).Type()})
			z[3] = st.Tag(i)
			ixs := make([]value, len(index))
			for k, ix := range index {
				ixs[k] = ix
			}
			z[5] = ixs // Index
			z[6] = st.Field(i).Anonymous()
			return tuple{z, true}
		},
		"(reflect.rtype).Key": func(fr *frame, args []value) value {
			return makeReflectType(rtype{args[0].(rtype).t.Underlying().(*types.Map).Key()})
		},
		"(reflect.StructTag).Lookup": func(fr *frame, args []value) value {
			v, ok := reflect.StructTag(args[0].(string)).Lookup(args[1].(string))
			return tuple{v, ok}
		},
		"(reflect.StructTag).Get": func(fr *frame, args []value) value {
			return reflect.StructTag(args[0].(string)).Get(args[1].(string))
		},
		"(reflect.Kind).String": func(fr *frame, args []value) value {
			return reflect.Kind(asUint64(args[0])).String()
		},
		"reflect.MakeSlice": func(fr *frame, args []value) value {
			t := args[0].(iface).v.(rtype).t
			s := make([]value, args[1].(int), args[2].(int))
			for i := range s {
				s[i] = zero(t.Underlying().(*types.Slice).Elem())
			}
			return makeReflectValue(t, s)
		},
		"(reflect.Value).IsZero": func(fr *frame, args []value) value {
			return boolVal(zeroTerm(rV2T(args[0]).t, rV2V(args[0])))
		},
		"reflect.DeepEqual": func(fr *frame, args []value) value {
			return boolVal(deepEqTerm(args[0], args[1], 0))
		},
		"strconv.Atoi": func(fr *frame, args []value) value {
			switch s := args[0].(type) {
			case string:
				n, err := strconv.Atoi(s)
				if err != nil {
					return tuple{n, numError(fr, "Atoi", s, err)}
				}
				return tuple{n, iface{}}
			case opaqueStr:
				if s.kind == "itoa" {
					return tuple{s.arg, iface{}}
				}
				cur.approx("Atoi of a formatted float: treated as a syntax error unless integral (not modelled)")
				panic(pathAbort{"unsupported: Atoi(Ftoa(x))"})
			}
			// arbitrary symbolic bytes: an uninterpreted FUNCTION of the string (equal strings give
			// equal outcomes; only the documented contract is assumed)
			cur.approx("strconv.Atoi on symbolic bytes: uninterpreted (ok, value)")
			cur.ufUsed = true
			key := "atoi|" + strSig(args[0])
			uf, seen := cur.ufCache[key]
			if !seen {
				uf = [2]string{cur.fresh("Bool", "atoi.ok"), cur.fresh(bvSort(64), "atoi.val")}
				cur.ufCache[key] = uf
			}
			ok := uf[0]
			val := symI{64, true, types.Int, uf[1]}
			if cur.branch(ok) {
				return tuple{val, iface{}}
			}
			return tuple{0, errVal("strconv.Atoi: parsing: invalid syntax")}
		},
		"strconv.ParseFloat": func(fr *frame, args []value) value {
			switch s := args[0].(type) {
			case string:
				f, err := strconv.ParseFloat(s, args[1].(int))
				if err != nil {
					return tuple{f, numError(fr, "ParseFloat", s, err)}
				}
				return tuple{f, iface{}}
			case opaqueStr:
				if s.kind == "ftoa" {
					return tuple{s.arg, iface{}}
				}
				// decimal integer string: nearest float64
				r, _ := symConv(types.Typ[types.Float64], s.arg)
				return tuple{r, iface{}}
			}
			cur.approx("strconv.ParseFloat on symbolic bytes: uninterpreted (ok, value)")
			cur.ufUsed = true
			key := "pf|" + strSig(args[0])
			uf, seen := cur.ufCache[key]
			if !seen {
				uf = [2]string{cur.fresh("Bool", "pf.ok"), cur.fresh(bvSort(64), "pf.val")}
				cur.ufCache[key] = uf
			}
			ok := uf[0]
			val := symF{bits: 64, t: "((_ to_fp 11 53) " + uf[1] + ")"}
			if cur.branch(ok) {
				return tuple{val, iface{}}
			}
			return tuple{0.0, errVal("strconv.ParseFloat: parsing: invalid syntax")}
		},
		"strconv.ParseBool": func(fr *frame, args []value) value {
			if s, ok := args[0].(string); ok {
				b, err := strconv.ParseBool(s)
				if err != nil {
					return tuple{false, errVal(err.Error())}
				}
				return tuple{b, iface{}}
			}
			if _, ok := args[0].(opaqueStr); ok {
				panic(pathAbort{"unsupported: ParseBool on formatted number"})
			}
			fn := fr.i.prog.ImportedPackage("strconv").Func("ParseBool")
			return callSSABody(fr.i, fr, fn, args)
		},
		"time.Parse": func(fr *frame, args []value) value {
			if _, ok := args[1].(string); !ok {
				// symbolic bytes: uninterpreted outcome (error, or some instant)
				cur.approx("time.Parse on symbolic bytes: uninterpreted (ok, instant)")
				tt := fr.i.prog.ImportedPackage("time").Type("Time").Type()
				cur.ufUsed = true
				if cur.branch(cur.fresh("Bool", "timeparse.ok")) {
					z := zero(tt).(structure)
					z[0] = uint64(0)
					z[1] = symI{64, true, types.Int64, cur.fresh(bvSort(64), "timeparse.sec")}
					return tuple{z, iface{}}
				}
				return tuple{zero(tt), errVal("parsing time: cannot parse")}
			}
			t, err := time.Parse(strArg(args[0]), strArg(args[1]))
			if err != nil {
				return tuple{zero(fr.i.prog.ImportedPackage("time").Type("Time").Type()), errVal(err.Error())}
			}
			return tuple{timeToValue(fr, t), iface{}}
		},
		"time.Now": func(fr *frame, args []value) value {
			return timeToValue(fr, time.Unix(1700000000, 0).UTC())
		},
		"os.Getenv": func(fr *frame, args []value) value {
			if v, ok := cur.env[strArg(args[0])]; ok {
				return v
			}
			return ""
		},
		"os.Setenv": func(fr *frame, args []value) value {
			cur.env[strArg(args[0])] = args[1]
			return iface{}
		},
		"os.Unsetenv": func(fr *frame, args []value) value {
			delete(cur.env, strArg(args[0]))
			return iface{}
		},
	} {
		externals[k] = v
	}
}

type nativeBox struct{ v any }

func isNilFunc(v value) bool {
	switch f := v.(type) {
	case nil:
		return true
	case *ssa.Function:
		return f == nil
	case *closure:
		return f == nil
	}
	return false
}

// time.Time from a native value: wall/ext/loc with loc == nil (UTC) only.
func timeToValue(fr *frame, t time.Time) value {
	tt := fr.i.prog.ImportedPackage("time").Type("Time").Type()
	z := zero(tt).(structure)
	// layout of time.Time: wall uint64, ext int64, loc *Location
	// Represent without monotonic reading: wall = nsec, ext = seconds since year 1.
	sec := t.Unix() + 62135596800
	z[0] = uint64(t.Nanosecond())
	z[1] = sec
	if name, off := t.Zone(); off != 0 || t.Location() != time.UTC {
		// a fixed-offset location, built by the target's own time.FixedZone
		if fz := fr.i.prog.ImportedPackage("time").Func("FixedZone"); fz != nil && t.Location().String() == "" {
			z[2] = call(fr.i, fr, token.NoPos, fz, []value{"", off})
		} else if fz != nil {
			z[2] = call(fr.i, fr, token.NoPos, fz, []value{name, off})
			cur.approx("time.Parse result in a named zone: modelled as a fixed offset")
		}
	}
	return z
}

// symContains: strings.Contains on bounded byte vectors (both may be symbolic)
func symContains(sv, subv value) value {
	s, ok1 := sv.(string)
	sub, ok2 := subv.(string)
	if ok1 && ok2 {
		return strings.Contains(s, sub)
	}
	a, okA := liftStr(sv)
	b, okB := liftStr(subv)
	if !okA || !okB {
		panic(pathAbort{"unsupported: strings.Contains on opaque string"})
	}
	b = b.withConcreteLen()
	m := b.n.(int)
	if m == 0 {
		return true
	}
	var alts []string
	for off := 0; off+m <= len(a.b); off++ {
		cs := []string{fmt.Sprintf("(bvsge %s %s)", lenTerm(a.n), bvConst(uint64(off+m), 64))}
		for j := 0; j < m; j++ {
			cs = append(cs, fmt.Sprintf("(= %s %s)", byteTerm(a.b[off+j]), byteTerm(b.b[j])))
		}
		alts = append(alts, mkAnd(cs...))
	}
	return boolVal(mkOr(alts...))
}

func deepContainsSym(v value, depth int) bool {
	if depth > 20 {
		return false
	}
	switch x := v.(type) {
	case symI, symB, symF, symStr, opaqueStr:
		return true
	case structure:
		for _, f := range x {
			if deepContainsSym(f, depth+1) {
				return true
			}
		}
	case array:
		for _, f := range x {
			if deepContainsSym(f, depth+1) {
				return true
			}
		}
	case []value:
		for _, f := range x {
			if deepContainsSym(f, depth+1) {
				return true
			}
		}
	case iface:
		return deepContainsSym(x.v, depth+1)
	case *value:
		if x != nil {
			return deepContainsSym(*x, depth+1)
		}
	case map[value]value:
		for _, f := range x {
			if deepContainsSym(f, depth+1) {
				return true
			}
		}
	}
	return false
}

// deepEqTerm: reflect.DeepEqual on interpreter values (follows pointers, slices, maps)
func deepEqTerm(x, y value, depth int) string {
	if depth > 30 {
		panic(pathAbort{"unsupported: DeepEqual recursion too deep"})
	}
	switch xv := x.(type) {
	case iface:
		yv, ok := y.(iface)
		if !ok {
			return "false"
		}
		if xv.t == nil || yv.t == nil {
			if xv.t == nil && yv.t == nil {
				return "true"
			}
			return "false"
		}
		if !types.Identical(xv.t, yv.t) {
			return "false"
		}
		return deepEqTyped(xv.t, xv.v, yv.v, depth+1)
	}
	return deepEqTyped(nil, x, y, depth)
}

func deepEqTyped(t types.Type, x, y value, depth int) string {
	switch xv := x.(type) {
	case iface:
		return deepEqTerm(x, y, depth)
	case structure:
		yv := y.(structure)
		var st *types.Struct
		if t != nil {
			st, _ = t.Underlying().(*types.Struct)
		}
		var cs []string
		for i := range xv {
			var ft types.Type
			if st != nil && i < st.NumFields() {
				ft = st.Field(i).Type()
			}
			cs = append(cs, deepEqTyped(ft, xv[i], yv[i], depth+1))
		}
		return mkAnd(cs...)
	case array:
		yv := y.(array)
		var cs []string
		for i := range xv {
			cs = append(cs, deepEqTyped(nil, xv[i], yv[i], depth+1))
		}
		return mkAnd(cs...)
	case []value:
		yv := y.([]value)
		if (xv == nil) != (yv == nil) || len(xv) != len(yv) {
			return "false"
		}
		var cs []string
		for i := range xv {
			cs = append(cs, deepEqTyped(nil, xv[i], yv[i], depth+1))
		}
		return mkAnd(cs...)
	case *value:
		yv := y.(*value)
		if xv == yv {
			return "true"
		}
		if xv == nil || yv == nil {
			return "false"
		}
		var et types.Type
		if t != nil {
			if pt, ok := t.Underlying().(*types.Pointer); ok {
				et = pt.Elem()
			}
		}
		return deepEqTyped(et, *xv, *yv, depth+1)
	case map[value]value:
		yv := y.(map[value]value)
		if (xv == nil) != (yv == nil) || len(xv) != len(yv) {
			return "false"
		}
		var cs []string
		for k, a := range xv {
			b, ok := yv[k]
			if !ok {
				return "false"
			}
			cs = append(cs, deepEqTyped(nil, a, b, depth+1))
		}
		sort.Strings(cs)
		return mkAnd(cs...)
	case *ssa.Function, *closure:
		if isNilFunc(x) && isNilFunc(y) {
			return "true"
		}
		return "false"
	case symF:
		b, _ := liftF(y)
		return fmt.Sprintf("(fp.eq %s %s)", xv.t, b.t)
	case float64, float32:
		if yf, ok := y.(symF); ok {
			a, _ := liftF(x)
			return fmt.Sprintf("(fp.eq %s %s)", a.t, yf.t)
		}
	case opaqueStr:
		panic(pathAbort{"unsupported: DeepEqual on opaque string"})
	}
	if isSymScalar(x) || isSymScalar(y) {
		r, ok := symBinop(token.EQL, t, x, y)
		if !ok {
			panic("engine: deepEq scalar")
		}
		b, _ := liftB(r)
		return b.t
	}
	if _, ok := y.(opaqueStr); ok {
		panic(pathAbort{"unsupported: DeepEqual on opaque string"})
	}
	if reflect.TypeOf(x) != reflect.TypeOf(y) {
		return "false"
	}
	if x == y {
		return "true"
	}
	return "false"
}

func init() {
	externals["time.runtimeNano"] = func(fr *frame, args []value) value { return int64(1) }
	externals["time.now"] = func(fr *frame, args []value) value { return tuple{int64(1700000000), int32(0), int64(1)} }
	externals["runtime.GOROOT"] = func(fr *frame, args []value) value { return "/usr/local/go" }
}

func init() {
	externals["internal/bytealg.IndexByteString"] = func(fr *frame, a []value) value {
		if ss, ok := a[0].(symStr); ok {
			// first index of the byte, or -1: an ite chain over the bounded byte vector
			t := bvConst(^uint64(0), 64)
			for i := len(ss.b) - 1; i >= 0; i-- {
				hit := mkAnd(fmt.Sprintf("(bvsgt %s %s)", lenTerm(ss.n), bvConst(uint64(i), 64)), fmt.Sprintf("(= %s %s)", byteTerm(ss.b[i]), byteTerm(a[1])))
				t = mkIte(hit, bvConst(uint64(i), 64), t)
			}
			return newI(64, true, types.Int, t)
		}
		return strings.IndexByte(strArg(a[0]), a[1].(byte))
	}
	externals["internal/bytealg.IndexString"] = func(fr *frame, a []value) value {
		return strings.Index(strArg(a[0]), strArg(a[1]))
	}
	externals["internal/bytealg.CountString"] = func(fr *frame, a []value) value {
		return strings.Count(strArg(a[0]), string([]byte{a[1].(byte)}))
	}
	externals["internal/bytealg.MakeNoZero"] = func(fr *frame, a []value) value {
		n := a[0].(int)
		out := make([]value, n)
		for i := range out {
			out[i] = byte(0)
		}
		return out
	}
}

func init() {
	id := func(fr *frame, a []value) value { return a[0] }
	externals["internal/stringslite.Clone"] = id
	externals["strings.Clone"] = id
}

func init() {
	strs := func(v value) []string {
		var out []string
		for _, x := range v.([]value) {
			out = append(out, strArg(x))
		}
		return out
	}
	toVals := func(ss []string) value {
		out := make([]value, len(ss))
		for i, s := range ss {
			out[i] = s
		}
		return out
	}
	externals["strings.Join"] = func(fr *frame, a []value) value { return strings.Join(strs(a[0]), strArg(a[1])) }
	externals["strings.Split"] = func(fr *frame, a []value) value { return toVals(strings.Split(strArg(a[0]), strArg(a[1]))) }
	externals["strings.Fields"] = func(fr *frame, a []value) value { return toVals(strings.Fields(strArg(a[0]))) }
	externals["strings.ToUpper"] = func(fr *frame, a []value) value { return strings.ToUpper(strArg(a[0])) }
	externals["strings.Repeat"] = func(fr *frame, a []value) value { return strings.Repeat(strArg(a[0]), a[1].(int)) }
	externals["(*strings.Builder).Grow"] = func(fr *frame, a []value) value { return nil }
	externals["(*strings.Builder).WriteByte"] = func(fr *frame, a []value) value {
		cur.builders[a[0].(*value)] += string([]byte{a[1].(byte)})
		return iface{}
	}
	externals["(*strings.Builder).WriteRune"] = func(fr *frame, a []value) value {
		r := string(rune(a[1].(int32)))
		cur.builders[a[0].(*value)] += r
		return tuple{len(r), iface{}}
	}
}

func objPtr(v value) *value {
	if it, ok := v.(iface); ok {
		if p, ok := it.v.(*value); ok {
			return p
		}
	}
	return nil
}

func init() {
	externals["math.IsInf"] = func(fr *frame, a []value) value {
		if f, ok := a[0].(symF); ok {
			t := f.t
			if f.w32 != "" {
				t = f.w32 // widening is exact: float64(x32) is infinite iff x32 is
			}
			sign, ok := a[1].(int)
			if !ok {
				panic(pathAbort{"unsupported: math.IsInf with a symbolic sign"})
			}
			switch {
			case sign > 0:
				return boolVal("(and (fp.isInfinite " + t + ") (fp.isPositive " + t + "))")
			case sign < 0:
				return boolVal("(and (fp.isInfinite " + t + ") (fp.isNegative " + t + "))")
			}
			return boolVal("(fp.isInfinite " + t + ")")
		}
		return math.IsInf(a[0].(float64), a[1].(int))
	}
	externals["math.IsNaN"] = func(fr *frame, a []value) value {
		if f, ok := a[0].(symF); ok {
			return boolVal("(fp.isNaN " + f.t + ")")
		}
		x := a[0].(float64)
		return x != x
	}
}

// strSig: a structural signature of a (symbolic) string value
func strSig(v value) string {
	ss, ok := liftStr(v)
	if !ok {
		return fmt.Sprintf("%T", v)
	}
	ss = ss.withConcreteLen() // equal strings must get equal signatures whatever their length term
	var sb strings.Builder
	sb.WriteString(lenTerm(ss.n))
	for _, b := range ss.b {
		sb.WriteString("," + byteTerm(b))
	}
	return sb.String()
}

func init() {
	rnd := func(name, mode string, native func(float64) float64) {
		externals["math."+name] = func(fr *frame, a []value) value {
			if f, ok := a[0].(symF); ok {
				return newF(64, "(fp.roundToIntegral "+mode+" "+f.t+")")
			}
			return native(a[0].(float64))
		}
	}
	rnd("Floor", "RTN", math.Floor)
	rnd("Ceil", "RTP", math.Ceil)
	rnd("Trunc", "RTZ", math.Trunc)
	externals["math.Round"] = func(fr *frame, a []value) value {
		if f, ok := a[0].(symF); ok {
			return newF(64, "(fp.roundToIntegral RNA "+f.t+")")
		}
		return math.Round(a[0].(float64))
	}
	// errors.Is / errors.As walk the Unwrap chain (the real ones need reflectlite)
	externals["errors.Is"] = func(fr *frame, a []value) value {
		err, target := a[0], a[1]
		for depth := 0; depth < 20; depth++ {
			ie, ok := err.(iface)
			if !ok || ie.t == nil {
				return false
			}
			if it, ok := target.(iface); ok && it.t != nil && types.Identical(ie.t, it.t) && types.Comparable(ie.t) {
				if r, ok2 := symEquals(ie.t, ie.v, it.v).(bool); ok2 && r {
					return true
				}
			}
			sel := fr.i.prog.MethodSets.MethodSet(ie.t).Lookup(nil, "Unwrap")
			if sel == nil {
				return false
			}
			m := fr.i.prog.MethodValue(sel)
			if m == nil {
				return false
			}
			err = call(fr.i, fr, token.NoPos, m, []value{ie.v})
		}
		return false
	}
}

func init() {
	// sort.Slice / sort.SliceStable (the real ones swap through reflectlite): a stable insertion
	// sort of the slice behind the interface, calling the target's less function
	sortSlice := func(fr *frame, a []value) value {
		it, ok := a[0].(iface)
		if !ok {
			panic(pathAbort{"unsupported: sort.Slice of a non-interface operand"})
		}
		xs, ok := it.v.([]value)
		if !ok {
			panic(rtErr(fr, "reflect: call of Swapper on "+fmt.Sprint(it.t)+" Value"))
		}
		less := func(i, j int) bool {
			r := call(fr.i, fr, token.NoPos, a[1], []value{i, j})
			b, ok := r.(bool)
			if !ok {
				return cur.branch(r.(symB).t)
			}
			return b
		}
		for i := 1; i < len(xs); i++ {
			for j := i; j > 0 && less(j, j-1); j-- {
				xs[j], xs[j-1] = xs[j-1], xs[j]
			}
		}
		return nil
	}
	externals["sort.Slice"] = sortSlice
	externals["sort.SliceStable"] = sortSlice
	// maps.clone is linknamed to the runtime: a shallow copy of the map behind the interface
	externals["maps.clone"] = func(fr *frame, a []value) value {
		it, ok := a[0].(iface)
		if !ok {
			panic(pathAbort{"unsupported: maps.clone of a non-interface operand"})
		}
		switch m := it.v.(type) {
		case map[value]value:
			if m == nil {
				return it
			}
			out := make(map[value]value, len(m))
			for k, e := range m {
				out[k] = copyVal(e)
			}
			return iface{it.t, out}
		case *hashmap:
			if m == nil {
				return it
			}
			out := &hashmap{keyType: m.keyType, table: map[int]*entry{}}
			for _, b := range m.entries() {
				for e := b; e != nil; e = e.next {
					out.insert(e.key, copyVal(e.value))
				}
			}
			return iface{it.t, out}
		}
		panic(pathAbort{"unsupported: maps.clone operand"})
	}
	externals["errors.As"] = func(fr *frame, a []value) value {
		err := a[0]
		tgt, ok := a[1].(iface)
		if !ok || tgt.t == nil {
			panic(targetPanic{iface{fr.i.runtimeErrorString, "errors: target cannot be nil"}})
		}
		pt, ok := tgt.t.Underlying().(*types.Pointer)
		cell, _ := tgt.v.(*value)
		if !ok || cell == nil {
			panic(targetPanic{iface{fr.i.runtimeErrorString, "errors: target must be a non-nil pointer"}})
		}
		want := pt.Elem()
		for depth := 0; depth < 20; depth++ {
			ie, ok := err.(iface)
			if !ok || ie.t == nil {
				return false
			}
			if it, isI := want.Underlying().(*types.Interface); isI {
				if types.Implements(ie.t, it) {
					*cell = ie
					return true
				}
			} else if types.Identical(ie.t, want) {
				*cell = ie.v
				return true
			}
			sel := fr.i.prog.MethodSets.MethodSet(ie.t).Lookup(nil, "Unwrap")
			if sel == nil {
				return false
			}
			m := fr.i.prog.MethodValue(sel)
			if m == nil {
				return false
			}
			err = call(fr.i, fr, token.NoPos, m, []value{ie.v})
		}
		return false
	}
}

// numError builds the *strconv.NumError that strconv returns (so that errors.Is / type
// switches on it behave as with the real package).
func numError(fr *frame, fn, num string, native error) value {
	sp := fr.i.prog.ImportedPackage("strconv")
	ne, ok := native.(*strconv.NumError)
	if sp == nil || !ok {
		return errVal(native.Error())
	}
	nt := sp.Type("NumError").Type()
	cell := zero(nt)
	st := cell.(structure)
	st[0], st[1] = fn, num
	var g *ssa.Global
	switch ne.Err {
	case strconv.ErrRange:
		g, _ = sp.Members["ErrRange"].(*ssa.Global)
	case strconv.ErrSyntax:
		g, _ = sp.Members["ErrSyntax"].(*ssa.Global)
	}
	if g != nil {
		st[2] = *fr.i.globals[g]
	} else {
		st[2] = errVal(ne.Err.Error())
	}
	return iface{t: types.NewPointer(nt), v: &cell}
}

// fieldPathByName: the index path reflect's FieldByName resolves (direct fields first, then
// promoted fields of embedded structs by depth; ambiguous names resolve to nothing).
func fieldPathByName(t types.Type, name string) []int {
	st, ok := t.Underlying().(*types.Struct)
	if !ok {
		return nil
	}
	var pkg *types.Package
	for i := 0; i < st.NumFields() && pkg == nil; i++ {
		pkg = st.Field(i).Pkg()
	}
	// direct fields match by name whatever their package (reflect compares names only)
	for i := 0; i < st.NumFields(); i++ {
		if st.Field(i).Name() == name {
			return []int{i}
		}
	}
	obj, index, _ := types.LookupFieldOrMethod(t, false, pkg, name)
	if _, isVar := obj.(*types.Var); !isVar || obj == nil {
		return nil
	}
	return index
}

// reflectFieldByIndex: reflect.Value.FieldByIndex, including the panic on a nil embedded pointer
func reflectFieldByIndex(fr *frame, v value, index []int) value {
	for k, ix := range index {
		if k > 0 {
			if _, isPtr := rV2T(v).t.Underlying().(*types.Pointer); isPtr {
				if p, _ := rV2V(v).(*value); p == nil {
					panic(targetPanic{iface{fr.i.runtimeErrorString, "reflect: indirection through nil pointer to embedded struct"}})
				}
				v = ext۰reflect۰Value۰Elem(fr, []value{v})
			}
		}
		v = ext۰reflect۰Value۰Field(fr, []value{v, ix})
	}
	return v
}
