package symterp

import (
	"fmt"
	"go/token"
	"go/types"
	"reflect"
	"strings"
	"time"

	"golang.org/x/tools/go/ssa"
)

func copyVal(v value) value {
	switch v := v.(type) {
	case structure:
		a := make(structure, len(v))
		for i := range v {
			a[i] = copyVal(v[i])
		}
		return a
	case array:
		a := make(array, len(v))
		for i := range v {
			a[i] = copyVal(v[i])
		}
		return a
	}
	return v
}

func toNative(v value) any {
	switch x := v.(type) {
	case iface:
		if x.t == nil {
			return nil
		}
		return toNative(x.v)
	case []value:
		out := make([]any, len(x))
		for i := range x {
			out[i] = toNative(x[i])
		}
		return out
	case *value:
		if x == nil {
			return nil
		}
		return fmt.Sprintf("&%v", toNative(*x))
	case structure:
		out := make([]any, len(x))
		for i := range x {
			out[i] = toNative(x[i])
		}
		return out
	case symI:
		return "<sym>"
	case symF:
		return "<sym>"
	case symB:
		return "<sym>"
	}
	return v
}

type pool struct{ items []value }

var pools = map[*value]*pool{}
var builders = map[*value]string{}
var sharedGlobals = map[*ssa.Global]*value{}

func symIsZero(t types.Type, v value) value {
	switch x := v.(type) {
	case symI:
		return symB{fmt.Sprintf("(= %s %s)", x.t, bvConst(0, x.w))}
	case symF:
		return symB{fmt.Sprintf("(fp.isZero %s)", x.t)} // reflect.IsZero: bits==0, spike approximation
	case symB:
		return symB{"(not " + x.t + ")"}
	case symStr:
		return symB{fmt.Sprintf("(= %s %s)", lenTerm(x.n), bvConst(0, 64))}
	}
	return equals(t, v, zero(t))
}

func init() {
	for k, v := range map[string]externalFn{
		"(*sync.Pool).Get": func(fr *frame, args []value) value {
			p := args[0].(*value)
			pl := pools[p]
			if pl != nil && len(pl.items) > 0 {
				it := pl.items[len(pl.items)-1]
				pl.items = pl.items[:len(pl.items)-1]
				return it
			}
			st := (*p).(structure)
			return call(fr.i, fr, token.NoPos, st[len(st)-1], nil)
		},
		"(*sync.Pool).Put": func(fr *frame, args []value) value {
			p := args[0].(*value)
			if pools[p] == nil {
				pools[p] = &pool{}
			}
			pools[p].items = append(pools[p].items, args[1])
			return nil
		},
		"fmt.Sprintf": func(fr *frame, args []value) value {
			var as []any
			for _, a := range args[1].([]value) {
				as = append(as, toNative(a))
			}
			return fmt.Sprintf(args[0].(string), as...)
		},
		"fmt.Errorf": func(fr *frame, args []value) value {
			var as []any
			for _, a := range args[1].([]value) {
				as = append(as, toNative(a))
			}
			return iface{t: errorType, v: fmt.Errorf(args[0].(string), as...).Error()}
		},
		"strings.HasSuffix":  func(fr *frame, a []value) value { return strings.HasSuffix(a[0].(string), a[1].(string)) },
		"strings.TrimPrefix": func(fr *frame, a []value) value { return strings.TrimPrefix(a[0].(string), a[1].(string)) },
		"strings.Contains":   func(fr *frame, a []value) value { return strings.Contains(a[0].(string), a[1].(string)) },
		"strings.ReplaceAll": func(fr *frame, a []value) value {
			return strings.ReplaceAll(a[0].(string), a[1].(string), a[2].(string))
		},
		"regexp.MustCompile": func(fr *frame, a []value) value {
			var v value = structure{a[0].(string)}
			return &v
		},
		"(*strings.Builder).Reset": func(fr *frame, args []value) value {
			builders[args[0].(*value)] = ""
			return nil
		},
		"(*strings.Builder).WriteString": func(fr *frame, args []value) value {
			builders[args[0].(*value)] += args[1].(string)
			return tuple{len(args[1].(string)), iface{}}
		},
		"(*strings.Builder).String": func(fr *frame, args []value) value { return builders[args[0].(*value)] },
		"(reflect.Value).Addr": func(fr *frame, args []value) value {
			a := rV2A(args[0])
			if a == nil {
				panic(targetPanic{"reflect.Value.Addr of unaddressable value"})
			}
			return makeReflectValue(types.NewPointer(rV2T(args[0]).t), a)
		},
		"(reflect.Value).FieldByName": func(fr *frame, args []value) value {
			t := rV2T(args[0]).t
			st := t.Underlying().(*types.Struct)
			name := args[1].(string)
			for i := 0; i < st.NumFields(); i++ {
				if st.Field(i).Name() == name {
					if a := rV2A(args[0]); a != nil {
						s := (*a).(structure)
						return makeReflectValueAddr(st.Field(i).Type(), &s[i])
					}
					return makeReflectValue(st.Field(i).Type(), rV2V(args[0]).(structure)[i])
				}
			}
			return structure{rtype{nil}, nil, (*value)(nil)}
		},
		"(reflect.rtype).FieldByName": func(fr *frame, args []value) value {
			t := args[0].(rtype).t
			st := t.Underlying().(*types.Struct)
			name := args[1].(string)
			sfT := fr.i.prog.ImportedPackage("reflect").Type("StructField").Type()
			z := zero(sfT).(structure)
			for i := 0; i < st.NumFields(); i++ {
				if st.Field(i).Name() == name {
					z[0] = name
					z[2] = makeReflectType(rtype{st.Field(i).Type()})
					z[3] = st.Tag(i)
					return tuple{z, true}
				}
			}
			return tuple{z, false}
		},
		"(reflect.rtype).Key": func(fr *frame, args []value) value {
			return makeReflectType(rtype{args[0].(rtype).t.Underlying().(*types.Map).Key()})
		},
		"(reflect.StructTag).Lookup": func(fr *frame, args []value) value {
			v, ok := reflect.StructTag(args[0].(string)).Lookup(args[1].(string))
			return tuple{v, ok}
		},
		"reflect.MakeSlice": func(fr *frame, args []value) value {
			t := args[0].(iface).v.(rtype).t
			s := make([]value, args[1].(int), args[2].(int))
			for i := range s {
				s[i] = zero(t.Underlying().(*types.Slice).Elem())
			}
			return makeReflectValue(t, s)
		},
		"(reflect.Value).IsZero": func(fr *frame, args []value) value {
			return symIsZero(rV2T(args[0]).t, rV2V(args[0]))
		},
		// ---- nondet API (harness package = zog in the spike)
		"github.com/Oudwins/zog.vInt": func(fr *frame, args []value) value {
			return symI{64, true, types.Int, cur.fresh("(_ BitVec 64)", args[0].(string))}
		},
		"github.com/Oudwins/zog.vFloat64": func(fr *frame, args []value) value {
			return symF{64, cur.fresh("(_ FloatingPoint 11 53)", args[0].(string))}
		},
		"github.com/Oudwins/zog.vString": func(fr *frame, args []value) value {
			return newSymStr(args[0].(string), args[1].(int))
		},
		"strconv.Atoi": func(fr *frame, args []value) value {
			if cs, ok := args[0].(string); ok {
				return ext۰strconv۰Atoi(fr, []value{cs})
			}
			ok := cur.fresh("Bool", "atoi.ok")
			val := symI{64, true, types.Int, cur.fresh("(_ BitVec 64)", "atoi.val")}
			if cur.branch(ok) {
				return tuple{val, iface{}}
			}
			return tuple{0, iface{t: errorType, v: "strconv.Atoi: parsing: invalid syntax"}}
		},
		"github.com/Oudwins/zog.vB2I": func(fr *frame, args []value) value {
			if b, ok := args[0].(symB); ok {
				return symI{64, true, types.Int, fmt.Sprintf("(ite %s %s %s)", b.t, bvConst(1, 64), bvConst(0, 64))}
			}
			if args[0].(bool) {
				return 1
			}
			return 0
		},
		"github.com/Oudwins/zog.vBool": func(fr *frame, args []value) value {
			return symB{cur.fresh("Bool", args[0].(string))}
		},
		"github.com/Oudwins/zog.vAssume": func(fr *frame, args []value) value {
			b, _ := liftB(args[0])
			cur.assume(b.t)
			r := cur.sat("")
			cur.pop()
			if r != "sat" {
				panic(pathAbort{"assumption infeasible"})
			}
			return nil
		},
		"github.com/Oudwins/zog.vCover": func(fr *frame, args []value) value {
			cur.Covers[args[0].(string)]++
			return nil
		},
		"github.com/Oudwins/zog.vAssert": func(fr *frame, args []value) value {
			b, _ := liftB(args[0])
			r := cur.sat("(not " + b.t + ")")
			if r == "sat" {
				m := cur.model()
				cur.pop()
				cur.Viol = append(cur.Viol, args[1].(string)+" :: "+strings.Join(strings.Fields(m), " "))
				panic(pathAbort{"violation"})
			}
			cur.pop()
			cur.assume(b.t)
			return nil
		},
	} {
		externals[k] = v
	}
}

type Machine struct {
	prog   *ssa.Program
	sizes  types.Sizes
	inits  []*ssa.Function
	isUser func(string) bool
}

func NewMachine(prog *ssa.Program, sizes types.Sizes, userPkgs func(path string) bool, inits ...*ssa.Function) *Machine {
	isUser = userPkgs
	return &Machine{prog, sizes, inits, userPkgs}
}

var isUser func(string) bool

func (m *Machine) fresh() *interpreter {
	i := &interpreter{prog: m.prog, globals: make(map[*ssa.Global]*value), sizes: m.sizes, goroutines: 1, mode: DisableRecover}
	i.runtimeErrorString = m.prog.ImportedPackage("runtime").Type("errorString").Object().Type()
	initReflectOnce(i)
	for _, pkg := range m.prog.AllPackages() {
		user := isUser(pkg.Pkg.Path())
		for _, mem := range pkg.Members {
			if g, ok := mem.(*ssa.Global); ok {
				if !user {
					if c, ok := sharedGlobals[g]; ok {
						i.globals[g] = c
						continue
					}
				}
				cell := zero(mustDeref(g.Type()))
				i.globals[g] = &cell
				if !user {
					sharedGlobals[g] = &cell
				}
			}
		}
	}
	pools = map[*value]*pool{}
	builders = map[*value]string{}
	return i
}

// Explore runs fn on every path; returns the explorer with stats.
func (m *Machine) Explore(fn *ssa.Function, maxPaths int) *Explorer {
	e := &Explorer{z: newZ3(), Covers: map[string]int{}, declared: map[string]bool{}}
	cur = e
	t0 := time.Now()
	for {
		e.pos, e.pc, e.nfresh = 0, nil, 0
		i := m.fresh()
		func() {
			defer func() {
				if r := recover(); r != nil {
					if _, ok := r.(pathAbort); !ok {
						n := len(CallStack)
						if n > 4 {
							n = 4
						}
						e.Viol = append(e.Viol, fmt.Sprintf("PANIC %v @ %v", r, CallStack[len(CallStack)-n:]))
					}
					CallStack = nil
				}
			}()
			for _, in := range m.inits {
				call(i, nil, token.NoPos, in, nil)
			}
			call(i, nil, token.NoPos, fn, nil)
		}()
		e.Paths++
		if e.Paths >= maxPaths || !e.next() {
			break
		}
	}
	_ = t0
	return e
}
