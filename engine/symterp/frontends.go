package symterp

import (
	"encoding/json"
	"fmt"
	"io"
	"go/types"
	"net/http"
	"net/textproto"
	"net/url"
	"sort"
	"strings"

	"golang.org/x/tools/go/ssa"
)

// Native ("N") treatment of the standard-library front ends zog sits on: encoding/json,
// net/http form parsing, net/url query parsing. They run natively on concrete operands and
// their results are converted back to interpreter values; they are the environment of the
// properties, not their subject.

var emptyIface = types.NewInterfaceType(nil, nil).Complete()
var tMapStrAny = types.NewMap(types.Typ[types.String], emptyIface)
var tSliceAny = types.NewSlice(emptyIface)
var tSliceStr = types.NewSlice(types.Typ[types.String])

func fieldIndex(t types.Type, name string) int {
	st := t.Underlying().(*types.Struct)
	for i := 0; i < st.NumFields(); i++ {
		if st.Field(i).Name() == name {
			return i
		}
	}
	panic("engine: no field " + name + " in " + t.String())
}

// readerString extracts the remaining content of a concrete in-memory io.Reader value.
func readerString(v value) (string, bool) {
	it, ok := v.(iface)
	if !ok || it.t == nil {
		return "", false
	}
	name := it.t.String()
	switch {
	case name == "*strings.Reader":
		st := (*it.v.(*value)).(structure)
		s, ok := st[0].(string)
		if !ok {
			return "", false
		}
		i := int(st[1].(int64))
		if i > len(s) {
			i = len(s)
		}
		st[1] = int64(len(s)) // consumed
		return s[i:], true
	case name == "*bytes.Reader" || name == "*bytes.Buffer":
		st := (*it.v.(*value)).(structure)
		bs, ok := st[0].([]value)
		if !ok {
			return "", false
		}
		var sb strings.Builder
		for _, b := range bs {
			c, ok := b.(byte)
			if !ok {
				return "", false
			}
			sb.WriteByte(c)
		}
		return sb.String(), true
	case strings.HasPrefix(name, "io.nopCloser"):
		st, ok := it.v.(structure)
		if ok && len(st) == 1 {
			return readerString(st[0])
		}
	case name == "net/http.noBody":
		return "", true
	case name == "*io.LimitedReader":
		// io.LimitReader(r, n): at most n bytes of r (n <= 0: nothing)
		st := (*it.v.(*value)).(structure)
		n, ok := st[1].(int64)
		if !ok {
			return "", false
		}
		s, ok := readerString(st[0])
		if !ok {
			return "", false
		}
		if n <= 0 {
			return "", true
		}
		if int64(len(s)) > n {
			s = s[:n]
		}
		st[1] = n - int64(len(s))
		return s, true
	}
	// a struct value that embeds an io.Reader (struct{ io.Reader; io.Closer }{...})
	if stt, ok := it.t.Underlying().(*types.Struct); ok {
		if sv, ok := it.v.(structure); ok {
			for i := 0; i < stt.NumFields() && i < len(sv); i++ {
				if stt.Field(i).Embedded() && stt.Field(i).Name() == "Reader" {
					return readerString(sv[i])
				}
			}
		}
	}
	return "", false
}

func toInterp(x any) value {
	switch v := x.(type) {
	case nil:
		return iface{}
	case float64:
		return iface{types.Typ[types.Float64], v}
	case string:
		return iface{types.Typ[types.String], v}
	case bool:
		return iface{types.Typ[types.Bool], v}
	case map[string]any:
		return iface{tMapStrAny, toInterpMap(v)}
	case []any:
		out := make([]value, len(v))
		for i := range v {
			out[i] = toInterp(v[i])
		}
		return iface{tSliceAny, out}
	}
	panic(fmt.Sprintf("engine: toInterp %T", x))
}

func toInterpMap(m map[string]any) value {
	if m == nil {
		return (map[value]value)(nil)
	}
	out := map[value]value{}
	for k, e := range m {
		out[k] = toInterp(e)
	}
	return out
}

func valuesToInterp(vs url.Values) value {
	if vs == nil {
		return (map[value]value)(nil)
	}
	out := map[value]value{}
	keys := make([]string, 0, len(vs))
	for k := range vs {
		keys = append(keys, k)
	}
	sort.Strings(keys)
	for _, k := range keys {
		l := make([]value, len(vs[k]))
		for i, s := range vs[k] {
			l[i] = s
		}
		out[k] = l
	}
	return out
}

// parseQueryMixed: url.ParseQuery for a query string whose bytes may be symbolic. Concrete
// bytes keep their meaning ('&' and '=' delimit, everything else is data); symbolic bytes are
// ASSUMED to be unreserved characters (letters and digits), so they never delimit or escape.
func parseQueryMixed(q value) value {
	if s, ok := q.(string); ok {
		vs, _ := url.ParseQuery(s)
		return valuesToInterp(vs)
	}
	ss, ok := q.(symStr)
	if !ok {
		panic(pathAbort{"unsupported: query string of an opaque kind"})
	}
	ss = ss.withConcreteLen()
	cur.approx("symbolic bytes of a query string are assumed to be letters or digits")
	out := map[value]value{}
	var key, val []value
	inVal := false
	flush := func() {
		if len(key) == 0 && len(val) == 0 && !inVal {
			return
		}
		k := symStr{n: len(key), b: key}.norm()
		ks, ok := k.(string)
		if !ok {
			panic(pathAbort{"unsupported: symbolic bytes in a query parameter NAME"})
		}
		var vv value = symStr{n: len(val), b: val}.norm()
		l, _ := out[ks].([]value)
		out[ks] = append(l, vv)
		key, val, inVal = nil, nil, false
	}
	for _, b := range ss.b {
		switch c := b.(type) {
		case uint8:
			switch {
			case c == '&':
				flush()
				continue
			case c == '=' && !inVal:
				inVal = true
				continue
			case c == '%' || c == '+' || c == ';':
				panic(pathAbort{"unsupported: escapes next to symbolic query bytes"})
			}
		case symI:
			t := c.t
			cur.assume(mkOr(
				mkAnd("(bvuge "+t+" #x30)", "(bvule "+t+" #x39)"),
				mkAnd("(bvuge "+t+" #x41)", "(bvule "+t+" #x5a)"),
				mkAnd("(bvuge "+t+" #x61)", "(bvule "+t+" #x7a)")))
		}
		if inVal {
			val = append(val, b)
		} else {
			key = append(key, b)
		}
	}
	flush()
	return out
}

func headerFromInterp(h value) http.Header {
	out := http.Header{}
	m, _ := h.(map[value]value)
	for k, l := range m {
		for _, s := range l.([]value) {
			out[strArg(k)] = append(out[strArg(k)], strArg(s))
		}
	}
	return out
}

func init() {
	externals["encoding/json.NewDecoder"] = func(fr *frame, a []value) value {
		var cell value = structure{nativeBox{a[0]}}
		return &cell
	}
	externals["(*encoding/json.Decoder).Decode"] = func(fr *frame, a []value) value {
		box := (*a[0].(*value)).(structure)[0].(nativeBox)
		if rd, isI := box.v.(value).(iface); isI && rd.t == nil {
			// json.NewDecoder(nil).Decode: the decoder calls Read on a nil io.Reader
			panic(rtErr(fr, "invalid memory address or nil pointer dereference"))
		}
		s, ok := readerString(box.v.(value))
		if !ok {
			panic(pathAbort{"unsupported: json.Decoder over a reader that is not a concrete in-memory reader"})
		}
		dst, ok := a[1].(iface)
		if !ok || dst.t == nil || !types.Identical(dst.t, types.NewPointer(tMapStrAny)) {
			panic(pathAbort{"unsupported: json.Decoder.Decode into " + fmt.Sprint(dst.t)})
		}
		var m map[string]any
		err := json.NewDecoder(strings.NewReader(s)).Decode(&m)
		if err != nil {
			// the sentinels of package io keep their identity (errors.Is(err, io.EOF))
			if iop := fr.i.prog.ImportedPackage("io"); iop != nil {
				name := ""
				switch err {
				case io.EOF:
					name = "EOF"
				case io.ErrUnexpectedEOF:
					name = "ErrUnexpectedEOF"
				}
				if g, ok := iop.Members[name].(*ssa.Global); ok && name != "" {
					if ev, ok := (*fr.i.globals[g]).(iface); ok && ev.t != nil {
						return ev
					}
				}
			}
			return errVal(err.Error())
		}
		*dst.v.(*value) = toInterpMap(m)
		return iface{}
	}
	externals["(net/http.Header).Get"] = func(fr *frame, a []value) value {
		m, _ := a[0].(map[value]value)
		l, ok := m[textproto.CanonicalMIMEHeaderKey(strArg(a[1]))]
		if !ok || len(l.([]value)) == 0 {
			return ""
		}
		return l.([]value)[0]
	}
	externals["(net/http.Header).Set"] = func(fr *frame, a []value) value {
		m := a[0].(map[value]value)
		m[textproto.CanonicalMIMEHeaderKey(strArg(a[1]))] = []value{a[2]}
		return nil
	}
	externals["(*net/url.URL).Query"] = func(fr *frame, a []value) value {
		ut := fr.i.prog.ImportedPackage("net/url").Type("URL").Type()
		u := (*a[0].(*value)).(structure)
		return parseQueryMixed(u[fieldIndex(ut, "RawQuery")])
	}
	externals["(*net/http.Request).ParseForm"] = func(fr *frame, a []value) value {
		rt := fr.i.prog.ImportedPackage("net/http").Type("Request").Type()
		ut := fr.i.prog.ImportedPackage("net/url").Type("URL").Type()
		r := (*a[0].(*value)).(structure)
		if m, ok := r[fieldIndex(rt, "Form")].(map[value]value); ok && m != nil {
			return iface{} // net/http parses once: later calls are no-ops
		}
		method := strArg(r[fieldIndex(rt, "Method")])
		raw := ""
		var rawV value = ""
		if up, ok := r[fieldIndex(rt, "URL")].(*value); ok && up != nil {
			rawV = (*up).(structure)[fieldIndex(ut, "RawQuery")]
		}
		if bodyV, isSym := symbolicReader(r[fieldIndex(rt, "Body")]); isSym || !isConcreteString(rawV) {
			// symbolic form data: POST/PUT/PATCH with application/x-www-form-urlencoded only
			hdr := headerFromInterp(r[fieldIndex(rt, "Header")])
			form := map[value]value{}
			post := map[value]value{}
			if (method == "POST" || method == "PUT" || method == "PATCH") && strings.HasPrefix(hdr.Get("Content-Type"), "application/x-www-form-urlencoded") {
				var b value = ""
				if isSym {
					b = bodyV
				} else if s, ok := readerString(r[fieldIndex(rt, "Body")]); ok {
					b = s
				}
				post, _ = parseQueryMixed(b).(map[value]value)
			}
			for k, l := range post {
				form[k] = append([]value{}, l.([]value)...)
			}
			qv, _ := parseQueryMixed(rawV).(map[value]value)
			for k, l := range qv {
				old, _ := form[k].([]value)
				form[k] = append(old, l.([]value)...)
			}
			r[fieldIndex(rt, "Form")] = form
			r[fieldIndex(rt, "PostForm")] = post
			return iface{}
		}
		raw = strArg(rawV)
		body, hasBody := readerString(r[fieldIndex(rt, "Body")])
		nr, err := http.NewRequest(method, "http://x/", strings.NewReader(body))
		if err != nil {
			return errVal(err.Error())
		}
		nr.URL.RawQuery = raw
		if !hasBody {
			nr.Body = nil
		}
		nr.Header = headerFromInterp(r[fieldIndex(rt, "Header")])
		perr := nr.ParseForm()
		r[fieldIndex(rt, "Form")] = valuesToInterp(nr.Form)
		r[fieldIndex(rt, "PostForm")] = valuesToInterp(nr.PostForm)
		if perr != nil {
			return errVal(perr.Error())
		}
		return iface{}
	}
	externals["(net/url.Values).Get"] = func(fr *frame, a []value) value {
		m, _ := a[0].(map[value]value)
		l, ok := m[a[1]]
		if !ok || len(l.([]value)) == 0 {
			return ""
		}
		return l.([]value)[0]
	}
	externals["(*sync.Once).Do"] = func(fr *frame, a []value) value {
		p := a[0].(*value)
		if cur.onces[p] {
			return nil
		}
		cur.onces[p] = true
		return call(fr.i, fr, 0, a[1], nil)
	}
	_ = ssa.NaiveForm
}

func isConcreteString(v value) bool { _, ok := v.(string); return ok }

// symbolicReader: a *strings.Reader over a symbolic string
func symbolicReader(v value) (value, bool) {
	it, ok := v.(iface)
	if !ok || it.t == nil {
		return nil, false
	}
	name := it.t.String()
	if strings.HasPrefix(name, "io.nopCloser") {
		if st, ok := it.v.(structure); ok && len(st) == 1 {
			return symbolicReader(st[0])
		}
	}
	if name == "*strings.Reader" {
		st := (*it.v.(*value)).(structure)
		if ss, ok := st[0].(symStr); ok {
			return ss, true
		}
	}
	return nil, false
}
