package symterp

import (
	"fmt"
	"reflect"
	"strings"

	"golang.org/x/tools/go/ssa"
)

// Write/ownership monitors behind C08 (goroutine safety by reduction): while a freeze is
// active no store may target a cell reachable from the frozen roots (the shared schema
// objects and zog's package-level variables), no object may be put into a pool twice, and no
// pooled object may be touched.

func mapID(m value) uintptr {
	switch x := m.(type) {
	case map[value]value:
		if x == nil {
			return 0
		}
		return reflect.ValueOf(x).Pointer()
	case *hashmap:
		return reflect.ValueOf(x).Pointer()
	}
	return 0
}

func (e *Explorer) freezeWalk(v value, depth int) {
	if depth > 60 {
		return
	}
	switch x := v.(type) {
	case *value:
		if x == nil || e.frozen[x] {
			return
		}
		e.frozen[x] = true
		e.freezeCell(x, depth+1)
	case structure:
		for i := range x {
			e.frozen[&x[i]] = true
			e.freezeWalk(x[i], depth+1)
		}
	case array:
		for i := range x {
			e.frozen[&x[i]] = true
			e.freezeWalk(x[i], depth+1)
		}
	case []value:
		full := x[:cap(x)]
		for i := range full {
			e.frozen[&full[i]] = true
			if i < len(x) {
				e.freezeWalk(x[i], depth+1)
			}
		}
	case iface:
		e.freezeWalk(x.v, depth+1)
	case map[value]value:
		id := mapID(x)
		if id == 0 || e.frozenMaps[id] {
			return
		}
		e.frozenMaps[id] = true
		for _, el := range x {
			e.freezeWalk(el, depth+1)
		}
	case *closure:
		if x != nil {
			for _, fv := range x.Env {
				e.freezeWalk(fv, depth+1)
			}
		}
	}
}

func (e *Explorer) freezeCell(c *value, depth int) { e.freezeWalk(*c, depth) }

func (e *Explorer) freeze(i *interpreter, roots []value) {
	e.frozen = map[*value]bool{}
	e.frozenMaps = map[uintptr]bool{}
	for _, r := range roots {
		e.freezeWalk(r, 0)
	}
	for g, cell := range i.globals {
		if g.Pkg != nil && isZogPkg(g.Pkg.Pkg.Path()) {
			if isPoolType(g) {
				continue // sync.Pool values synchronise internally
			}
			e.frozen[cell] = true
			e.freezeCell(cell, 1)
		}
	}
	e.freezeOn = true
}

func isPoolType(g *ssa.Global) bool {
	return strings.Contains(g.Type().String(), "sync.Pool")
}

func (e *Explorer) monitorViolation(fr *frame, label string) {
	where := ""
	if fr != nil && fr.fn != nil {
		where = fr.fn.String()
	}
	key := label + "@" + where
	if e.monitored[key] {
		return
	}
	e.monitored[key] = true
	script := e.sampleModel()
	e.trace = append(e.trace, "monitor:"+label)
	e.recordViolation(label, script, "in "+where, tailStack(5))
}

func (e *Explorer) checkSharedWrite(fr *frame, addr *value, what string) {
	if e.frozen[addr] {
		e.monitorViolation(fr, "C08:write-to-state-shared-between-executions")
	}
}

func (e *Explorer) checkSharedMap(fr *frame, m value) {
	if id := mapID(m); id != 0 && e.frozenMaps[id] {
		e.monitorViolation(fr, "C08:write-to-state-shared-between-executions")
	}
}

func init() {
	api := func(name string, f externalFn) { externals[apiPkg+"."+name] = f }
	api("Freeze", func(fr *frame, args []value) value {
		cur.freeze(fr.i, args[0].([]value))
		return nil
	})
	api("Unfreeze", func(fr *frame, args []value) value { cur.freezeOn = false; return nil })
	api("Concurrently", func(fr *frame, args []value) value {
		// the engine runs the bodies one after the other: the W/O monitors are schedule-free
		n := args[0].(int)
		for k := 0; k < n; k++ {
			call(fr.i, fr, 0, args[1], []value{k})
		}
		return nil
	})
	api("Flag", func(fr *frame, args []value) value { cur.flags++; return nil })
	api("Flagged", func(fr *frame, args []value) value { return cur.flags })
	api("FlagReset", func(fr *frame, args []value) value { cur.flags = 0; return nil })
	_ = fmt.Sprint
}
