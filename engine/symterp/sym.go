package symterp

import (
	"bufio"
	"fmt"
	"go/token"
	"go/types"
	"io"
	"math"
	"os/exec"
	"sort"
	"strings"
	"time"
)

// ---- symbolic scalar values (spike: SMT-LIB text terms, no hash-consing)
type symI struct {
	w      int
	signed bool
	kind   types.BasicKind
	t      string
}
type symB struct{ t string }
type symF struct {
	bits int
	t    string
}

func isSym(v value) bool {
	switch v.(type) {
	case symI, symB, symF, symStr:
		return true
	}
	return false
}

func fpSort(bits int) string {
	if bits == 32 {
		return "8 24"
	}
	return "11 53"
}

func bvConst(u uint64, w int) string {
	if w < 64 {
		u &= (1 << uint(w)) - 1
	}
	return fmt.Sprintf("(_ bv%d %d)", u, w)
}

// lift concrete scalar to the sort of the symbolic partner
func liftI(v value) (symI, bool) {
	switch x := v.(type) {
	case symI:
		return x, true
	case int:
		return symI{64, true, types.Int, bvConst(uint64(x), 64)}, true
	case int64:
		return symI{64, true, types.Int64, bvConst(uint64(x), 64)}, true
	case int32:
		return symI{32, true, types.Int32, bvConst(uint64(uint32(x)), 32)}, true
	case uint8:
		return symI{8, false, types.Uint8, bvConst(uint64(x), 8)}, true
	case uint16:
		return symI{16, false, types.Uint16, bvConst(uint64(x), 16)}, true
	case uint32:
		return symI{32, false, types.Uint32, bvConst(uint64(x), 32)}, true
	case uint:
		return symI{64, false, types.Uint, bvConst(uint64(x), 64)}, true
	case uint64:
		return symI{64, false, types.Uint64, bvConst(x, 64)}, true
	}
	return symI{}, false
}
func liftF(v value) (symF, bool) {
	switch x := v.(type) {
	case symF:
		return x, true
	case float64:
		return symF{64, fmt.Sprintf("((_ to_fp 11 53) #x%016x)", math.Float64bits(x))}, true
	case float32:
		return symF{32, fmt.Sprintf("((_ to_fp 8 24) #x%08x)", math.Float32bits(x))}, true
	}
	return symF{}, false
}
func liftB(v value) (symB, bool) {
	switch x := v.(type) {
	case symB:
		return x, true
	case bool:
		if x {
			return symB{"true"}, true
		}
		return symB{"false"}, true
	}
	return symB{}, false
}

func symBinop(op token.Token, x, y value) (value, bool) {
	if !isSym(x) && !isSym(y) {
		return nil, false
	}
	if op == token.SHL || op == token.SHR {
		a, _ := liftI(x)
		return symShift(op, a, y), true
	}
	if _, isStr := x.(symStr); isStr || func() bool { _, ok := y.(symStr); return ok }() {
		a, _ := liftStr(x)
		b, _ := liftStr(y)
		switch op {
		case token.EQL:
			return symStrEq(a, b), true
		case token.NEQ:
			return symB{"(not " + symStrEq(a, b).t + ")"}, true
		}
		panic("symStr binop " + op.String())
	}
	if a, ok := liftI(x); ok {
		b, ok2 := liftI(y)
		if !ok2 {
			panic(fmt.Sprintf("symBinop int vs %T", y))
		}
		s := "u"
		if a.signed {
			s = "s"
		}
		bin := func(o string) value { return symI{a.w, a.signed, a.kind, fmt.Sprintf("(%s %s %s)", o, a.t, b.t)} }
		cmp := func(o string) value { return symB{fmt.Sprintf("(%s %s %s)", o, a.t, b.t)} }
		switch op {
		case token.AND:
			return bin("bvand"), true
		case token.OR:
			return bin("bvor"), true
		case token.XOR:
			return bin("bvxor"), true
		case token.AND_NOT:
			return symI{a.w, a.signed, a.kind, fmt.Sprintf("(bvand %s (bvnot %s))", a.t, b.t)}, true
		case token.QUO:
			if a.signed {
				return bin("bvsdiv"), true
			}
			return bin("bvudiv"), true
		case token.REM:
			if a.signed {
				return bin("bvsrem"), true
			}
			return bin("bvurem"), true
		case token.ADD:
			return bin("bvadd"), true
		case token.SUB:
			return bin("bvsub"), true
		case token.MUL:
			return bin("bvmul"), true
		case token.EQL:
			return cmp("="), true
		case token.NEQ:
			return symB{fmt.Sprintf("(not (= %s %s))", a.t, b.t)}, true
		case token.LSS:
			return cmp("bv" + s + "lt"), true
		case token.LEQ:
			return cmp("bv" + s + "le"), true
		case token.GTR:
			return cmp("bv" + s + "gt"), true
		case token.GEQ:
			return cmp("bv" + s + "ge"), true
		}
		panic("symBinop int op " + op.String())
	}
	if a, ok := liftF(x); ok {
		b, _ := liftF(y)
		cmp := func(o string) value { return symB{fmt.Sprintf("(%s %s %s)", o, a.t, b.t)} }
		switch op {
		case token.EQL:
			return cmp("fp.eq"), true
		case token.NEQ:
			return symB{fmt.Sprintf("(not (fp.eq %s %s))", a.t, b.t)}, true
		case token.LSS:
			return cmp("fp.lt"), true
		case token.LEQ:
			return cmp("fp.leq"), true
		case token.GTR:
			return cmp("fp.gt"), true
		case token.GEQ:
			return cmp("fp.geq"), true
		}
		panic("symBinop float op " + op.String())
	}
	if a, ok := liftB(x); ok {
		b, _ := liftB(y)
		switch op {
		case token.EQL:
			return symB{fmt.Sprintf("(= %s %s)", a.t, b.t)}, true
		case token.NEQ:
			return symB{fmt.Sprintf("(xor %s %s)", a.t, b.t)}, true
		}
	}
	panic(fmt.Sprintf("symBinop %T %s %T", x, op, y))
}

func basicOf(t types.Type) *types.Basic { b, _ := t.Underlying().(*types.Basic); return b }

func symConv(tdst types.Type, x value) (value, bool) {
	if !isSym(x) {
		return nil, false
	}
	b := basicOf(tdst)
	if b == nil {
		panic("symConv to " + tdst.String())
	}
	if _, ok := x.(symStr); ok && b.Kind() == types.String {
		return x, true
	}
	width := map[types.BasicKind]int{types.Uint16: 16, types.Int: 64, types.Int64: 64, types.Int32: 32, types.Int16: 16, types.Int8: 8, types.Uint: 64, types.Uint64: 64, types.Uint32: 32, types.Uint8: 8}
	switch v := x.(type) {
	case symI:
		if b.Info()&types.IsInteger != 0 {
			w := width[b.Kind()]
			signed := b.Info()&types.IsUnsigned == 0
			var t string
			switch {
			case w == v.w:
				t = v.t
			case w < v.w:
				t = fmt.Sprintf("((_ extract %d 0) %s)", w-1, v.t)
			case v.signed:
				t = fmt.Sprintf("((_ sign_extend %d) %s)", w-v.w, v.t)
			default:
				t = fmt.Sprintf("((_ zero_extend %d) %s)", w-v.w, v.t)
			}
			return symI{w, signed, b.Kind(), t}, true
		}
		if b.Info()&types.IsFloat != 0 {
			bits := 64
			if b.Kind() == types.Float32 {
				bits = 32
			}
			f := "to_fp"
			if !v.signed {
				f = "to_fp_unsigned"
			}
			return symF{bits, fmt.Sprintf("((_ %s %s) RNE %s)", f, fpSort(bits), v.t)}, true
		}
	case symF:
		if b.Info()&types.IsFloat != 0 {
			bits := 64
			if b.Kind() == types.Float32 {
				bits = 32
			}
			if bits == v.bits {
				return v, true
			}
			return symF{bits, fmt.Sprintf("((_ to_fp %s) RNE %s)", fpSort(bits), v.t)}, true
		}
		if b.Info()&types.IsInteger != 0 {
			// Go: implementation-defined when out of range => fresh unconstrained value guarded by range
			w := width[b.Kind()]
			signed := b.Info()&types.IsUnsigned == 0
			fresh := cur.fresh(fmt.Sprintf("(_ BitVec %d)", w), "f2i")
			lo := fmt.Sprintf("((_ to_fp %s) RTZ (bvneg (bvshl (_ bv1 %d) (_ bv%d %d))))", fpSort(v.bits), w+1, w-1, w+1)
			_ = lo
			// in-range test done on the rounded-toward-zero integral value
			r := fmt.Sprintf("(fp.roundToIntegral RTZ %s)", v.t)
			minF := fmt.Sprintf("((_ to_fp %s) RNE %s)", fpSort(v.bits), bvConst(uint64(1)<<uint(w-1), w))   // -2^(w-1) as signed bv
			maxF := fmt.Sprintf("((_ to_fp_unsigned %s) RNE %s)", fpSort(v.bits), bvConst(uint64(1)<<uint(w-1), w)) // 2^(w-1)
			inr := fmt.Sprintf("(and (not (fp.isNaN %s)) (fp.geq %s %s) (fp.lt %s %s))", v.t, r, minF, r, maxF)
			cur.assume(fmt.Sprintf("(=> %s (= %s ((_ fp.to_sbv %d) RTZ %s)))", inr, fresh, w, v.t))
			return symI{w, signed, b.Kind(), fresh}, true
		}
	}
	panic(fmt.Sprintf("symConv %T -> %s", x, tdst))
}

// ---- explorer state (one per run of the harness)
type decision struct {
	n      int // arity (2 for branches)
	taken  int
	forced bool
	cond   string // for binary symbolic branches
}

type Explorer struct {
	z        *z3proc
	stack    []decision
	pos      int
	pc       []string // path condition conjuncts (incl. assumptions)
	nfresh   int
	decls    []string
	Queries  int
	SolverNS time.Duration
	Paths    int
	Viol     []string
	Covers   map[string]int
	declared map[string]bool
	zstack   []string
	cache    map[string]string
}

var cur *Explorer

func (e *Explorer) fresh(sort, hint string) string {
	name := fmt.Sprintf("%s!%d", hint, e.nfresh)
	e.nfresh++
	if !e.declared[name] {
		e.declared[name] = true
		e.z.send(fmt.Sprintf("(declare-const |%s| %s)", name, sort))
	}
	return "|" + name + "|"
}
func (e *Explorer) assume(c string) { e.pc = append(e.pc, c) }

func (e *Explorer) sat(extra string) string {
	e.Queries++
	t0 := time.Now()
	var sb strings.Builder
	// sync solver assertion stack with the path condition (longest common prefix is kept)
	lcp := 0
	for lcp < len(e.zstack) && lcp < len(e.pc) && e.zstack[lcp] == e.pc[lcp] {
		lcp++
	}
	for i := len(e.zstack); i > lcp; i-- {
		sb.WriteString("(pop)\n")
	}
	e.zstack = e.zstack[:lcp]
	for _, c := range e.pc[lcp:] {
		sb.WriteString("(push)\n(assert " + c + ")\n")
		e.zstack = append(e.zstack, c)
	}
	sb.WriteString("(push)\n")
	if extra != "" {
		sb.WriteString("(assert " + extra + ")\n")
	}
	sb.WriteString("(check-sat)\n")
	e.z.send(sb.String())
	r := e.z.readLine()
	e.SolverNS += time.Since(t0)
	if r != "sat" && r != "unsat" {
		fmt.Println("Z3 SAID:", r, "\nAFTER:", tailStr(sb.String(), 600))
		panic("solver protocol")
	}
	return r
}
func (e *Explorer) model() string {
	e.z.send("(get-model)")
	m := e.z.readSexp()
	return m
}
func (e *Explorer) pop() { e.z.send("(pop)") }

// decide a symbolic branch
func (e *Explorer) branch(c string) bool {
	if e.pos < len(e.stack) {
		d := e.stack[e.pos]
		e.pos++
		if d.taken == 1 {
			e.assume(c)
			return true
		}
		e.assume("(not " + c + ")")
		return false
	}
	rt := e.sat(c)
	e.pop()
	rf := "sat"
	if rt == "sat" {
		rf = e.sat("(not " + c + ")")
		e.pop()
	}
	d := decision{n: 2, cond: c}
	switch {
	case rt == "sat" && rf == "sat":
		d.taken = 1
	case rt == "sat":
		d.taken, d.forced = 1, true
	case rf == "sat":
		d.taken, d.forced = 0, true
	default:
		panic(pathAbort{"infeasible/unknown at branch: " + rt + "/" + rf})
	}
	e.stack = append(e.stack, d)
	e.pos++
	if d.taken == 1 {
		e.assume(c)
		return true
	}
	e.assume("(not " + c + ")")
	return false
}

// n-ary concrete choice point (schedule choice)
func (e *Explorer) choose(n int) int {
	if n <= 1 {
		return 0
	}
	if e.pos < len(e.stack) {
		d := e.stack[e.pos]
		e.pos++
		return d.taken
	}
	e.stack = append(e.stack, decision{n: n, taken: n - 1})
	e.pos++
	return n - 1
}

// advance to next unexplored path; false when done
func (e *Explorer) next() bool {
	for len(e.stack) > 0 {
		d := &e.stack[len(e.stack)-1]
		if !d.forced && d.taken > 0 {
			d.taken--
			if d.n == 2 {
				d.forced = true // other side now
			} else if d.taken == 0 {
				d.forced = true
			}
			return true
		}
		e.stack = e.stack[:len(e.stack)-1]
	}
	return false
}

type pathAbort struct{ why string }

// ---- z3 pipe
type z3proc struct {
	in  io.WriteCloser
	out *bufio.Reader
}

func newZ3() *z3proc {
	cmd := exec.Command("z3", "-in")
	in, _ := cmd.StdinPipe()
	out, _ := cmd.StdoutPipe()
	if err := cmd.Start(); err != nil {
		panic(err)
	}
	z := &z3proc{in, bufio.NewReader(out)}
	z.send("(set-option :global-declarations true)")
	return z
}
func (z *z3proc) send(s string) { io.WriteString(z.in, s+"\n") }
func (z *z3proc) readLine() string {
	l, _ := z.out.ReadString('\n')
	return strings.TrimSpace(l)
}
func (z *z3proc) readSexp() string {
	var sb strings.Builder
	depth := 0
	started := false
	for {
		l, err := z.out.ReadString('\n')
		if err != nil {
			break
		}
		sb.WriteString(l)
		for _, c := range l {
			if c == '(' {
				depth++
				started = true
			} else if c == ')' {
				depth--
			}
		}
		if started && depth <= 0 {
			break
		}
	}
	return sb.String()
}

// ordered keys helper for deterministic + permutable map ranges
func sortedKeys(m map[value]value) []value {
	ks := make([]value, 0, len(m))
	for k := range m {
		ks = append(ks, k)
	}
	sort.Slice(ks, func(i, j int) bool { return fmt.Sprint(ks[i]) < fmt.Sprint(ks[j]) })
	return ks
}

type orderedMapIter struct {
	m    map[value]value
	keys []value
	i    int
}

func (it *orderedMapIter) next() tuple {
	if it.i >= len(it.keys) {
		return []value{false, nil, nil}
	}
	k := it.keys[it.i]
	it.i++
	return []value{true, k, it.m[k]}
}

// permute keys by a sequence of choices (Lehmer code) when in a zog function
func permute(keys []value, schedule bool) []value {
	if !schedule || cur == nil {
		return keys
	}
	rest := append([]value{}, keys...)
	var out []value
	for len(rest) > 0 {
		i := cur.choose(len(rest))
		out = append(out, rest[i])
		rest = append(rest[:i], rest[i+1:]...)
	}
	return out
}
var rangeSchedule bool

var initAllowed = map[string]bool{"strings": true, "unicode": true, "unicode/utf8": true}

// concretize a symbolic integer by model enumeration (forks one path per feasible value)
func (e *Explorer) concretize(x symI) int64 {
	for {
		if e.pos < len(e.stack) {
			d := e.stack[e.pos]
			var u uint64
			if k := strings.LastIndex(d.cond, "(_ bv"); k >= 0 {
				fmt.Sscanf(d.cond[k+5:], "%d", &u)
			}
			if e.branch(d.cond) {
				if x.signed && x.w < 64 {
					sh := uint(64 - x.w)
					return int64(u<<sh) >> sh
				}
				return int64(u)
			}
			continue
		}
		r := e.sat("")
		if r != "sat" {
			e.pop()
			panic(pathAbort{"concretize: " + r})
		}
		e.z.send("(get-value (" + x.t + "))")
		resp := e.z.readSexp()
		e.pop()
		// parse #x... or #b...
		i := strings.LastIndex(resp, "#x")
		var u uint64
		if i >= 0 {
			fmt.Sscanf(strings.TrimRight(resp[i+2:], ") \n"), "%x", &u)
		} else if j := strings.LastIndex(resp, "#b"); j >= 0 {
			fmt.Sscanf(strings.TrimRight(resp[j+2:], ") \n"), "%b", &u)
		} else {
			panic(pathAbort{"concretize parse: " + resp})
		}
		if e.branch(fmt.Sprintf("(= %s %s)", x.t, bvConst(u, x.w))) {
			if x.signed && x.w < 64 {
				sh := uint(64 - x.w)
				return int64(u<<sh) >> sh
			}
			return int64(u)
		}
	}
}

func tailStr(s string, n int) string {
	if len(s) > n {
		return s[len(s)-n:]
	}
	return s
}
