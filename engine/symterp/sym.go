package symterp

import (
	"fmt"
	"go/token"
	"go/types"
	"math"
	"strings"
)

// ---- symbolic scalar values: SMT-LIB2 text terms --------------------------------------
//
// Integers are bit-vectors of their Go width, floats use the FloatingPoint theory, strings
// are bounded byte vectors (symStr). All-concrete operands never reach this file: the
// interpreter's native path handles them.

type symI struct {
	w      int
	signed bool
	kind   types.BasicKind
	t      string
}
type symB struct{ t string }
type symF struct {
	bits int
	t    string
	w32  string // for a float64 obtained by widening a float32: the float32 term (exact round trip)
}

func isSymScalar(v value) bool {
	switch v.(type) {
	case symI, symB, symF, symStr, opaqueStr:
		return true
	}
	return false
}

// containsSym reports whether v has a symbolic leaf (not following pointers).
func containsSym(v value) bool {
	switch x := v.(type) {
	case symI, symB, symF, symStr, opaqueStr:
		return true
	case structure:
		for _, f := range x {
			if containsSym(f) {
				return true
			}
		}
	case array:
		for _, f := range x {
			if containsSym(f) {
				return true
			}
		}
	case iface:
		return containsSym(x.v)
	case tuple:
		for _, f := range x {
			if containsSym(f) {
				return true
			}
		}
	}
	return false
}

func fpSort(bits int) string {
	if bits == 32 {
		return "8 24"
	}
	return "11 53"
}
func fpSortFull(bits int) string { return "(_ FloatingPoint " + fpSort(bits) + ")" }
func bvSort(w int) string        { return fmt.Sprintf("(_ BitVec %d)", w) }

func bvConst(u uint64, w int) string {
	if w < 64 {
		u &= (1 << uint(w)) - 1
	}
	return fmt.Sprintf("(_ bv%d %d)", u, w)
}

func mkNot(c string) string {
	switch {
	case c == "true":
		return "false"
	case c == "false":
		return "true"
	case strings.HasPrefix(c, "(not ") && balancedSingle(c[5:len(c)-1]):
		return c[5 : len(c)-1]
	}
	return "(not " + c + ")"
}

// balancedSingle: s is exactly one s-expression or atom
func balancedSingle(s string) bool {
	if s == "" {
		return false
	}
	if s[0] != '(' {
		return !strings.ContainsAny(s, " ()")
	}
	depth := 0
	for i, c := range s {
		if c == '(' {
			depth++
		} else if c == ')' {
			depth--
			if depth == 0 && i != len(s)-1 {
				return false
			}
		}
	}
	return depth == 0
}

func mkAnd(cs ...string) string {
	var out []string
	for _, c := range cs {
		if c == "false" {
			return "false"
		}
		if c != "true" {
			out = append(out, c)
		}
	}
	switch len(out) {
	case 0:
		return "true"
	case 1:
		return out[0]
	}
	return "(and " + strings.Join(out, " ") + ")"
}

func mkOr(cs ...string) string {
	var out []string
	for _, c := range cs {
		if c == "true" {
			return "true"
		}
		if c != "false" {
			out = append(out, c)
		}
	}
	switch len(out) {
	case 0:
		return "false"
	case 1:
		return out[0]
	}
	return "(or " + strings.Join(out, " ") + ")"
}

func mkIte(c, a, b string) string {
	if c == "true" || a == b {
		return a
	}
	if c == "false" {
		return b
	}
	return "(ite " + c + " " + a + " " + b + ")"
}

func boolVal(t string) value {
	switch t {
	case "true":
		return true
	case "false":
		return false
	}
	return symB{cur.share(t, "Bool")}
}

func newI(w int, signed bool, kind types.BasicKind, t string) symI {
	return symI{w, signed, kind, cur.share(t, bvSort(w))}
}
func newF(bits int, t string) symF { return symF{bits: bits, t: cur.share(t, fpSortFull(bits))} }

var kindWidth = map[types.BasicKind]int{types.Int: 64, types.Int64: 64, types.Int32: 32, types.Int16: 16, types.Int8: 8,
	types.Uint: 64, types.Uint64: 64, types.Uint32: 32, types.Uint16: 16, types.Uint8: 8, types.Uintptr: 64,
	types.UntypedInt: 64, types.UntypedRune: 32}

func kindSigned(k types.BasicKind) bool {
	switch k {
	case types.Int, types.Int64, types.Int32, types.Int16, types.Int8, types.UntypedInt, types.UntypedRune:
		return true
	}
	return false
}

// concrete Go value of the given integer kind from raw bits
func concreteInt(kind types.BasicKind, u uint64) value {
	switch kind {
	case types.Int, types.UntypedInt:
		return int(int64(u))
	case types.Int64:
		return int64(u)
	case types.Int32, types.UntypedRune:
		return int32(uint32(u))
	case types.Int16:
		return int16(uint16(u))
	case types.Int8:
		return int8(uint8(u))
	case types.Uint:
		return uint(u)
	case types.Uint64:
		return u
	case types.Uint32:
		return uint32(u)
	case types.Uint16:
		return uint16(u)
	case types.Uint8:
		return uint8(u)
	case types.Uintptr:
		return uintptr(u)
	}
	panic(fmt.Sprintf("concreteInt kind %v", kind))
}

func liftI(v value) (symI, bool) {
	switch x := v.(type) {
	case symI:
		return x, true
	case int:
		return symI{64, true, types.Int, bvConst(uint64(x), 64)}, true
	case int64:
		return symI{64, true, types.Int64, bvConst(uint64(x), 64)}, true
	case int32:
		return symI{32, true, types.Int32, bvConst(uint64(uint32(x)), 32)}, true
	case int16:
		return symI{16, true, types.Int16, bvConst(uint64(uint16(x)), 16)}, true
	case int8:
		return symI{8, true, types.Int8, bvConst(uint64(uint8(x)), 8)}, true
	case uint8:
		return symI{8, false, types.Uint8, bvConst(uint64(x), 8)}, true
	case uint16:
		return symI{16, false, types.Uint16, bvConst(uint64(x), 16)}, true
	case uint32:
		return symI{32, false, types.Uint32, bvConst(uint64(x), 32)}, true
	case uint:
		return symI{64, false, types.Uint, bvConst(uint64(x), 64)}, true
	case uint64:
		return symI{64, false, types.Uint64, bvConst(x, 64)}, true
	case uintptr:
		return symI{64, false, types.Uintptr, bvConst(uint64(x), 64)}, true
	}
	return symI{}, false
}
func liftF(v value) (symF, bool) {
	switch x := v.(type) {
	case symF:
		return x, true
	case float64:
		return symF{bits: 64, t: fmt.Sprintf("((_ to_fp 11 53) #x%016x)", math.Float64bits(x))}, true
	case float32:
		return symF{bits: 32, t: fmt.Sprintf("((_ to_fp 8 24) #x%08x)", math.Float32bits(x))}, true
	}
	return symF{}, false
}
func liftB(v value) (symB, bool) {
	switch x := v.(type) {
	case symB:
		return x, true
	case bool:
		if x {
			return symB{"true"}, true
		}
		return symB{"false"}, true
	}
	return symB{}, false
}

func symBinop(op token.Token, t types.Type, x, y value) (value, bool) {
	if !isSymScalar(x) && !isSymScalar(y) {
		if (op == token.EQL || op == token.NEQ) && (containsSym(x) || containsSym(y)) {
			r := symEquals(t, x, y)
			if op == token.NEQ {
				return symNotV(r), true
			}
			return r, true
		}
		return nil, false
	}
	if r, ok := opaqueBinop(op, x, y); ok {
		return r, true
	}
	if op == token.SHL || op == token.SHR {
		a, _ := liftI(x)
		return symShift(op, a, y), true
	}
	_, xs := x.(symStr)
	_, ys := y.(symStr)
	if xs || ys {
		a, _ := liftStr(x)
		b, _ := liftStr(y)
		switch op {
		case token.EQL:
			return boolVal(symStrEq(a, b)), true
		case token.NEQ:
			return boolVal(mkNot(symStrEq(a, b))), true
		case token.ADD:
			return symStrConcat(a, b), true
		case token.LSS:
			return boolVal(symStrLess(a, b)), true
		case token.GTR:
			return boolVal(symStrLess(b, a)), true
		case token.LEQ:
			return boolVal(mkNot(symStrLess(b, a))), true
		case token.GEQ:
			return boolVal(mkNot(symStrLess(a, b))), true
		}
		panic("engine: symStr binop " + op.String())
	}
	if a, ok := liftI(x); ok {
		b, ok2 := liftI(y)
		if !ok2 {
			panic(fmt.Sprintf("engine: symBinop int vs %T", y))
		}
		if a.w != b.w {
			panic(fmt.Sprintf("engine: symBinop width mismatch %d vs %d (%s)", a.w, b.w, op))
		}
		s := "u"
		if a.signed {
			s = "s"
		}
		bin := func(o string) value { return newI(a.w, a.signed, a.kind, fmt.Sprintf("(%s %s %s)", o, a.t, b.t)) }
		cmp := func(o string) value { return boolVal(fmt.Sprintf("(%s %s %s)", o, a.t, b.t)) }
		switch op {
		case token.AND:
			return bin("bvand"), true
		case token.OR:
			return bin("bvor"), true
		case token.XOR:
			return bin("bvxor"), true
		case token.AND_NOT:
			return newI(a.w, a.signed, a.kind, fmt.Sprintf("(bvand %s (bvnot %s))", a.t, b.t)), true
		case token.QUO, token.REM:
			// division by zero panics in Go
			if cur.branch(fmt.Sprintf("(= %s %s)", b.t, bvConst(0, b.w))) {
				panic(targetPanic{iface{cur.interp.runtimeErrorString, "integer divide by zero"}})
			}
			if op == token.QUO {
				if a.signed {
					return bin("bvsdiv"), true
				}
				return bin("bvudiv"), true
			}
			if a.signed {
				return bin("bvsrem"), true
			}
			return bin("bvurem"), true
		case token.ADD:
			return bin("bvadd"), true
		case token.SUB:
			return bin("bvsub"), true
		case token.MUL:
			return bin("bvmul"), true
		case token.EQL:
			return cmp("="), true
		case token.NEQ:
			return boolVal(fmt.Sprintf("(not (= %s %s))", a.t, b.t)), true
		case token.LSS:
			return cmp("bv" + s + "lt"), true
		case token.LEQ:
			return cmp("bv" + s + "le"), true
		case token.GTR:
			return cmp("bv" + s + "gt"), true
		case token.GEQ:
			return cmp("bv" + s + "ge"), true
		}
		panic("engine: symBinop int op " + op.String())
	}
	if a, ok := liftF(x); ok {
		b, _ := liftF(y)
		cmp := func(o string) value { return boolVal(fmt.Sprintf("(%s %s %s)", o, a.t, b.t)) }
		ar := func(o string) value { return newF(a.bits, fmt.Sprintf("(%s RNE %s %s)", o, a.t, b.t)) }
		if a.t == b.t && (op == token.EQL || op == token.NEQ) {
			// x == x holds unless x is NaN; an integer converted to float is never NaN
			nn := "(not (fp.isNaN " + a.t + "))"
			if strings.HasPrefix(a.t, "((_ to_fp "+fpSort(a.bits)+") RNE (_ bv") || strings.HasPrefix(a.t, "((_ to_fp "+fpSort(a.bits)+") RNE |") ||
				strings.HasPrefix(a.t, "((_ to_fp_unsigned ") {
				nn = "true"
			}
			if op == token.NEQ {
				return boolVal(mkNot(nn)), true
			}
			return boolVal(nn), true
		}
		switch op {
		case token.EQL:
			return cmp("fp.eq"), true
		case token.NEQ:
			return boolVal(fmt.Sprintf("(not (fp.eq %s %s))", a.t, b.t)), true
		case token.LSS:
			return cmp("fp.lt"), true
		case token.LEQ:
			return cmp("fp.leq"), true
		case token.GTR:
			return cmp("fp.gt"), true
		case token.GEQ:
			return cmp("fp.geq"), true
		case token.ADD:
			return ar("fp.add"), true
		case token.SUB:
			return ar("fp.sub"), true
		case token.MUL:
			return ar("fp.mul"), true
		case token.QUO:
			return ar("fp.div"), true
		}
		panic("engine: symBinop float op " + op.String())
	}
	if a, ok := liftB(x); ok {
		b, _ := liftB(y)
		switch op {
		case token.EQL:
			return boolVal(fmt.Sprintf("(= %s %s)", a.t, b.t)), true
		case token.NEQ:
			return boolVal(fmt.Sprintf("(xor %s %s)", a.t, b.t)), true
		case token.AND, token.LAND:
			return boolVal(mkAnd(a.t, b.t)), true
		case token.OR, token.LOR:
			return boolVal(mkOr(a.t, b.t)), true
		}
	}
	panic(fmt.Sprintf("engine: symBinop %T %s %T", x, op, y))
}

func symNotV(v value) value {
	switch b := v.(type) {
	case bool:
		return !b
	case symB:
		return boolVal(mkNot(b.t))
	}
	panic("engine: symNotV")
}

// symEquals: Go equality on values that contain symbolic leaves; result bool or symB.
func symEquals(t types.Type, x, y value) value {
	return boolVal(eqTerm(t, x, y))
}

func eqTerm(t types.Type, x, y value) string {
	if !containsSym(x) && !containsSym(y) {
		if eqnil(t, x, y) {
			return "true"
		}
		return "false"
	}
	switch xv := x.(type) {
	case structure:
		yv := y.(structure)
		st, _ := t.Underlying().(*types.Struct)
		var cs []string
		for i := range xv {
			var ft types.Type
			if st != nil && i < st.NumFields() {
				if st.Field(i).Name() == "_" {
					continue
				}
				ft = st.Field(i).Type()
			}
			cs = append(cs, eqTerm(ft, xv[i], yv[i]))
		}
		return mkAnd(cs...)
	case array:
		yv := y.(array)
		var et types.Type
		if at, ok := t.Underlying().(*types.Array); ok {
			et = at.Elem()
		}
		var cs []string
		for i := range xv {
			cs = append(cs, eqTerm(et, xv[i], yv[i]))
		}
		return mkAnd(cs...)
	case iface:
		yv, ok := y.(iface)
		if !ok {
			panic("engine: eqTerm iface vs non-iface")
		}
		if xv.t == nil || yv.t == nil {
			if xv.t == nil && yv.t == nil {
				return "true"
			}
			return "false"
		}
		if !types.Identical(xv.t, yv.t) {
			return "false"
		}
		return eqTerm(xv.t, xv.v, yv.v)
	}
	if _, ok := y.(iface); ok {
		panic("engine: eqTerm non-iface vs iface")
	}
	r, ok := symBinop(token.EQL, t, x, y)
	if !ok {
		panic(fmt.Sprintf("engine: eqTerm %T %T", x, y))
	}
	b, _ := liftB(r)
	return b.t
}

func basicOf(t types.Type) *types.Basic { b, _ := t.Underlying().(*types.Basic); return b }

func symConv(tdst types.Type, x value) (value, bool) {
	if !isSymScalar(x) {
		return nil, false
	}
	if ss, ok := x.(symStr); ok {
		switch u := tdst.Underlying().(type) {
		case *types.Basic:
			if u.Kind() == types.String {
				return x, true
			}
		case *types.Slice:
			// []byte(s): needs a concrete length
			n := ss.concreteLen()
			out := make([]value, n)
			for i := 0; i < n; i++ {
				out[i] = ss.b[i]
			}
			return out, true
		}
		panic("engine: symConv symStr to " + tdst.String())
	}
	b := basicOf(tdst)
	if b == nil {
		panic("engine: symConv to " + tdst.String())
	}
	switch v := x.(type) {
	case symB:
		return v, true
	case symI:
		if b.Info()&types.IsInteger != 0 {
			w := kindWidth[b.Kind()]
			signed := kindSigned(b.Kind())
			var t string
			switch {
			case w == v.w:
				t = v.t
			case w < v.w:
				t = fmt.Sprintf("((_ extract %d 0) %s)", w-1, v.t)
			case v.signed:
				t = fmt.Sprintf("((_ sign_extend %d) %s)", w-v.w, v.t)
			default:
				t = fmt.Sprintf("((_ zero_extend %d) %s)", w-v.w, v.t)
			}
			return newI(w, signed, b.Kind(), t), true
		}
		if b.Info()&types.IsFloat != 0 {
			bits := 64
			if b.Kind() == types.Float32 {
				bits = 32
			}
			f := "to_fp"
			if !v.signed {
				f = "to_fp_unsigned"
			}
			return newF(bits, fmt.Sprintf("((_ %s %s) RNE %s)", f, fpSort(bits), v.t)), true
		}
		if b.Kind() == types.String {
			// string(rune): concretise (rare)
			u := cur.concretize(v)
			return string(rune(int32(u))), true
		}
	case symF:
		if b.Info()&types.IsFloat != 0 {
			bits := 64
			if b.Kind() == types.Float32 {
				bits = 32
			}
			if bits == v.bits {
				return v, true
			}
			if bits == 32 && v.w32 != "" {
				return symF{bits: 32, t: v.w32}, true // float32(float64(x32)) == x32
			}
			r := newF(bits, fmt.Sprintf("((_ to_fp %s) RNE %s)", fpSort(bits), v.t))
			if bits == 64 {
				r.w32 = v.t
			}
			return r, true
		}
		if b.Info()&types.IsInteger != 0 {
			// Go leaves out-of-range float->int implementation-defined: in range the result is
			// truncation toward zero, otherwise an unconstrained fresh value (replay decides).
			w := kindWidth[b.Kind()]
			signed := kindSigned(b.Kind())
			fresh := cur.fresh(bvSort(w), "f2i")
			r := fmt.Sprintf("(fp.roundToIntegral RTZ %s)", v.t)
			var inr, conv string
			if signed {
				minF := fmt.Sprintf("((_ to_fp %s) RNE %s)", fpSort(v.bits), bvConst(uint64(1)<<uint(w-1), w))
				maxF := fmt.Sprintf("((_ to_fp_unsigned %s) RNE %s)", fpSort(v.bits), bvConst(uint64(1)<<uint(w-1), w))
				inr = fmt.Sprintf("(and (not (fp.isNaN %s)) (fp.geq %s %s) (fp.lt %s %s))", v.t, r, minF, r, maxF)
				conv = fmt.Sprintf("((_ fp.to_sbv %d) RTZ %s)", w, v.t)
			} else {
				maxF := fmt.Sprintf("(fp.mul RNE ((_ to_fp_unsigned %s) RNE %s) ((_ to_fp %s) RNE 2.0))", fpSort(v.bits), bvConst(uint64(1)<<uint(w-1), w), fpSort(v.bits))
				inr = fmt.Sprintf("(and (not (fp.isNaN %s)) (fp.geq %s ((_ to_fp %s) RNE 0.0)) (fp.lt %s %s))", v.t, r, fpSort(v.bits), r, maxF)
				conv = fmt.Sprintf("((_ fp.to_ubv %d) RTZ %s)", w, v.t)
			}
			cur.assume(fmt.Sprintf("(=> %s (= %s %s))", inr, fresh, conv))
			cur.approx("float->int out of range: unconstrained result (Go: implementation-defined)")
			return symI{w, signed, b.Kind(), fresh}, true
		}
	}
	panic(fmt.Sprintf("engine: symConv %T -> %s", x, tdst))
}

func symShift(op token.Token, a symI, y value) value {
	b, ok := liftI(y)
	if !ok {
		panic("engine: shift count")
	}
	bt := b.t
	switch {
	case b.w < a.w:
		bt = fmt.Sprintf("((_ zero_extend %d) %s)", a.w-b.w, b.t)
	case b.w > a.w:
		// counts >= width: SMT shifts already saturate to 0 / sign; clamp then truncate
		big := fmt.Sprintf("(bvuge %s %s)", b.t, bvConst(uint64(a.w), b.w))
		bt = fmt.Sprintf("(ite %s %s ((_ extract %d 0) %s))", big, bvConst(uint64(a.w), a.w), a.w-1, b.t)
	}
	o := "bvshl"
	if op == token.SHR {
		o = "bvlshr"
		if a.signed {
			o = "bvashr"
		}
	}
	return newI(a.w, a.signed, a.kind, fmt.Sprintf("(%s %s %s)", o, a.t, bt))
}

func symUnop(op token.Token, x value) (value, bool) {
	switch v := x.(type) {
	case symB:
		if op == token.NOT {
			return boolVal(mkNot(v.t)), true
		}
	case symI:
		switch op {
		case token.SUB:
			return newI(v.w, v.signed, v.kind, "(bvneg "+v.t+")"), true
		case token.XOR:
			return newI(v.w, v.signed, v.kind, "(bvnot "+v.t+")"), true
		}
	case symF:
		if op == token.SUB {
			return newF(v.bits, "(fp.neg "+v.t+")"), true
		}
	default:
		return nil, false
	}
	panic(fmt.Sprintf("engine: symUnop %s %T", op, x))
}

// zeroTerm: reflect.Value.IsZero / "== zero value" on possibly symbolic values
func zeroTerm(t types.Type, v value) string {
	switch x := v.(type) {
	case symI:
		return fmt.Sprintf("(= %s %s)", x.t, bvConst(0, x.w))
	case symF:
		// reflect.IsZero for floats since Go 1.22: v.Float() == 0, i.e. +0 and -0 (the conformance
		// replay of the thorough tier caught the older bits == 0 model on x = -0)
		return fmt.Sprintf("(fp.isZero %s)", x.t)
	case symB:
		return mkNot(x.t)
	case symStr:
		return fmt.Sprintf("(= %s %s)", lenTerm(x.n), bvConst(0, 64))
	case structure:
		st, _ := t.Underlying().(*types.Struct)
		var cs []string
		for i := range x {
			var ft types.Type
			if st != nil && i < st.NumFields() {
				ft = st.Field(i).Type()
			}
			cs = append(cs, zeroTerm(ft, x[i]))
		}
		return mkAnd(cs...)
	case array:
		var et types.Type
		if at, ok := t.Underlying().(*types.Array); ok {
			et = at.Elem()
		}
		var cs []string
		for i := range x {
			cs = append(cs, zeroTerm(et, x[i]))
		}
		return mkAnd(cs...)
	}
	if isZeroConcrete(t, v) {
		return "true"
	}
	return "false"
}

func isZeroConcrete(t types.Type, v value) bool {
	switch x := v.(type) {
	case nil:
		return true
	case bool:
		return !x
	case int:
		return x == 0
	case int8:
		return x == 0
	case int16:
		return x == 0
	case int32:
		return x == 0
	case int64:
		return x == 0
	case uint:
		return x == 0
	case uint8:
		return x == 0
	case uint16:
		return x == 0
	case uint32:
		return x == 0
	case uint64:
		return x == 0
	case uintptr:
		return x == 0
	case float32:
		return x == 0
	case float64:
		return x == 0
	case complex64:
		return x == 0
	case complex128:
		return x == 0
	case string:
		return x == ""
	case *value:
		return x == nil
	case []value:
		return x == nil
	case map[value]value:
		return x == nil
	case *hashmap:
		return x == nil
	case iface:
		return x.t == nil
	case *ssa_Function:
		return x == nil
	case *closure:
		return x == nil
	case chan value:
		return x == nil
	case rtype:
		return x.t == nil
	case symIdxPtr:
		return false
	}
	panic(fmt.Sprintf("engine: isZeroConcrete %T", v))
}

// pointer to an element selected by a symbolic index (read-only)
type symIdxPtr struct {
	elems []value
	idx   symI
}

func (p symIdxPtr) load() value { return iteLoad(p.elems, p.idx) }

func iteLoad(elems []value, idx symI) value {
	switch e0 := elems[0].(type) {
	case structure:
		out := make(structure, len(e0))
		for f := range e0 {
			col := make([]value, len(elems))
			for i := range elems {
				col[i] = elems[i].(structure)[f]
			}
			out[f] = iteLoad(col, idx)
		}
		return out
	}
	if _, isBool := elems[0].(bool); isBool {
		// a table of booleans (e.g. a [256]bool character class) indexed by a symbolic byte
		allBool := true
		var ds []string
		for i, e := range elems {
			bv, ok := e.(bool)
			if !ok {
				allBool = false
				break
			}
			if bv {
				ds = append(ds, fmt.Sprintf("(= %s %s)", idx.t, bvConst(uint64(i), idx.w)))
			}
		}
		if allBool {
			if len(ds) == 0 {
				return false
			}
			return boolVal(mkOr(ds...))
		}
	}
	groups := map[string][]int{}
	var order []string
	w, signed, kind := 0, false, types.Invalid
	for i, e := range elems {
		si, ok := liftI(e)
		if !ok {
			panic(fmt.Sprintf("engine: iteLoad elem %T", e))
		}
		w, signed, kind = si.w, si.signed, si.kind
		if _, seen := groups[si.t]; !seen {
			order = append(order, si.t)
		}
		groups[si.t] = append(groups[si.t], i)
	}
	if len(order) == 1 {
		return elems[0]
	}
	def := order[0]
	for _, k := range order {
		if len(groups[k]) > len(groups[def]) {
			def = k
		}
	}
	t := def
	for _, k := range order {
		if k == def {
			continue
		}
		var ds []string
		for _, i := range groups[k] {
			ds = append(ds, fmt.Sprintf("(= %s %s)", idx.t, bvConst(uint64(i), idx.w)))
		}
		t = fmt.Sprintf("(ite %s %s %s)", mkOr(ds...), k, t)
	}
	return newI(w, signed, kind, t)
}

// opaque formatted-number strings: only (in)equality with concrete strings is understood:
// a formatted number is never empty and never equals a string that is not a number.
func opaqueBinop(op token.Token, x, y value) (value, bool) {
	ox, okx := x.(opaqueStr)
	oy, oky := y.(opaqueStr)
	if !okx && !oky {
		return nil, false
	}
	if op != token.EQL && op != token.NEQ {
		panic(pathAbort{"unsupported: operator " + op.String() + " on a formatted-number string"})
	}
	var r value
	switch {
	case okx && oky:
		if ox.kind != oy.kind {
			panic(pathAbort{"unsupported: comparing formatted numbers of different kinds"})
		}
		r = symEquals(nil, ox.arg, oy.arg)
	default:
		other := y
		if oky {
			other = x
		}
		s, ok := other.(string)
		if !ok {
			panic(pathAbort{"unsupported: comparing a formatted number with a symbolic string"})
		}
		if looksNumeric(s) {
			panic(pathAbort{"unsupported: comparing a formatted number with a numeric literal"})
		}
		r = false
	}
	if op == token.NEQ {
		return symNotV(r), true
	}
	return r, true
}

func looksNumeric(s string) bool {
	if s == "" {
		return false
	}
	for _, c := range s {
		if (c >= '0' && c <= '9') || c == '-' || c == '+' || c == '.' || c == 'e' || c == 'E' {
			continue
		}
		if s == "NaN" || s == "+Inf" || s == "-Inf" || s == "Inf" {
			return true
		}
		return false
	}
	return true
}
