package symterp

import "fmt"

// sync.Map model: an association list per Map value (keys compared with Go interface
// equality). Lives on the Explorer, keyed by the address of the sync.Map, re-created per path.

type smEntry struct{ k, v value }
type syncMapModel struct{ entries []smEntry }

func (e *Explorer) smOf(p *value) *syncMapModel {
	if e.syncMaps == nil {
		e.syncMaps = map[*value]*syncMapModel{}
	}
	m := e.syncMaps[p]
	if m == nil {
		m = &syncMapModel{}
		e.syncMaps[p] = m
	}
	return m
}

func smKeyEq(a, b value) bool {
	ia, ok1 := a.(iface)
	ib, ok2 := b.(iface)
	if !ok1 || !ok2 {
		panic(fmt.Sprintf("engine: sync.Map key %T", a))
	}
	if containsSym(ia) || containsSym(ib) {
		panic(pathAbort{"unsupported: sync.Map with a symbolic key"})
	}
	return ia.eq(nil, ib)
}

func (m *syncMapModel) find(k value) int {
	for i, e := range m.entries {
		if smKeyEq(e.k, k) {
			return i
		}
	}
	return -1
}

func init() {
	externals["(*sync.Map).Load"] = func(fr *frame, a []value) value {
		m := cur.smOf(a[0].(*value))
		if i := m.find(a[1]); i >= 0 {
			return tuple{m.entries[i].v, true}
		}
		return tuple{iface{}, false}
	}
	externals["(*sync.Map).Store"] = func(fr *frame, a []value) value {
		m := cur.smOf(a[0].(*value))
		if i := m.find(a[1]); i >= 0 {
			m.entries[i].v = a[2]
		} else {
			m.entries = append(m.entries, smEntry{a[1], a[2]})
		}
		return nil
	}
	externals["(*sync.Map).LoadOrStore"] = func(fr *frame, a []value) value {
		m := cur.smOf(a[0].(*value))
		if i := m.find(a[1]); i >= 0 {
			return tuple{m.entries[i].v, true}
		}
		m.entries = append(m.entries, smEntry{a[1], a[2]})
		return tuple{a[2], false}
	}
	externals["(*sync.Map).Swap"] = func(fr *frame, a []value) value {
		m := cur.smOf(a[0].(*value))
		if i := m.find(a[1]); i >= 0 {
			old := m.entries[i].v
			m.entries[i].v = a[2]
			return tuple{old, true}
		}
		m.entries = append(m.entries, smEntry{a[1], a[2]})
		return tuple{iface{}, false}
	}
	del := func(fr *frame, a []value) value {
		m := cur.smOf(a[0].(*value))
		if i := m.find(a[1]); i >= 0 {
			old := m.entries[i].v
			m.entries = append(m.entries[:i:i], m.entries[i+1:]...)
			return tuple{old, true}
		}
		return tuple{iface{}, false}
	}
	externals["(*sync.Map).LoadAndDelete"] = del
	externals["(*sync.Map).Delete"] = func(fr *frame, a []value) value { del(fr, a); return nil }
	externals["(*sync.Map).Range"] = func(fr *frame, a []value) value {
		m := cur.smOf(a[0].(*value))
		for _, e := range append([]smEntry{}, m.entries...) {
			if r := call(fr.i, fr, 0, a[1], []value{e.k, e.v}); r == false {
				break
			}
		}
		return nil
	}
	externals["(*sync.Map).Clear"] = func(fr *frame, a []value) value {
		cur.smOf(a[0].(*value)).entries = nil
		return nil
	}
	// mutexes: single-threaded execution, locking is a no-op
	for _, n := range []string{"(*sync.Mutex).Lock", "(*sync.Mutex).Unlock", "(*sync.RWMutex).Lock", "(*sync.RWMutex).Unlock", "(*sync.RWMutex).RLock", "(*sync.RWMutex).RUnlock"} {
		externals[n] = func(fr *frame, a []value) value { return nil }
	}
	externals["(*sync.Mutex).TryLock"] = func(fr *frame, a []value) value { return true }
}
