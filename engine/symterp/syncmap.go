package symterp

import (
	"fmt"
	"go/token"
	"strings"
)

// sync.Map model: an association list per Map value (keys compared with Go interface
// equality). Lives on the Explorer, keyed by the address of the sync.Map, re-created per path.

type smEntry struct{ k, v value }
type syncMapModel struct{ entries []smEntry }

func (e *Explorer) smOf(p *value) *syncMapModel {
	if e.syncMaps == nil {
		e.syncMaps = map[*value]*syncMapModel{}
	}
	m := e.syncMaps[p]
	if m == nil {
		m = &syncMapModel{}
		e.syncMaps[p] = m
	}
	return m
}

func smKeyEq(a, b value) bool {
	ia, ok1 := a.(iface)
	ib, ok2 := b.(iface)
	if !ok1 || !ok2 {
		panic(fmt.Sprintf("engine: sync.Map key %T", a))
	}
	if containsSym(ia) || containsSym(ib) {
		panic(pathAbort{"unsupported: sync.Map with a symbolic key"})
	}
	return ia.eq(nil, ib)
}

func (m *syncMapModel) find(k value) int {
	for i, e := range m.entries {
		if smKeyEq(e.k, k) {
			return i
		}
	}
	return -1
}

func init() {
	externals["(*sync.Map).Load"] = func(fr *frame, a []value) value {
		m := cur.smOf(a[0].(*value))
		if i := m.find(a[1]); i >= 0 {
			return tuple{m.entries[i].v, true}
		}
		return tuple{iface{}, false}
	}
	externals["(*sync.Map).Store"] = func(fr *frame, a []value) value {
		m := cur.smOf(a[0].(*value))
		if i := m.find(a[1]); i >= 0 {
			m.entries[i].v = a[2]
		} else {
			m.entries = append(m.entries, smEntry{a[1], a[2]})
		}
		return nil
	}
	externals["(*sync.Map).LoadOrStore"] = func(fr *frame, a []value) value {
		m := cur.smOf(a[0].(*value))
		if i := m.find(a[1]); i >= 0 {
			return tuple{m.entries[i].v, true}
		}
		m.entries = append(m.entries, smEntry{a[1], a[2]})
		return tuple{a[2], false}
	}
	externals["(*sync.Map).Swap"] = func(fr *frame, a []value) value {
		m := cur.smOf(a[0].(*value))
		if i := m.find(a[1]); i >= 0 {
			old := m.entries[i].v
			m.entries[i].v = a[2]
			return tuple{old, true}
		}
		m.entries = append(m.entries, smEntry{a[1], a[2]})
		return tuple{iface{}, false}
	}
	del := func(fr *frame, a []value) value {
		m := cur.smOf(a[0].(*value))
		if i := m.find(a[1]); i >= 0 {
			old := m.entries[i].v
			m.entries = append(m.entries[:i:i], m.entries[i+1:]...)
			return tuple{old, true}
		}
		return tuple{iface{}, false}
	}
	externals["(*sync.Map).LoadAndDelete"] = del
	externals["(*sync.Map).Delete"] = func(fr *frame, a []value) value { del(fr, a); return nil }
	externals["(*sync.Map).Range"] = func(fr *frame, a []value) value {
		m := cur.smOf(a[0].(*value))
		for _, e := range append([]smEntry{}, m.entries...) {
			if r := call(fr.i, fr, 0, a[1], []value{e.k, e.v}); r == false {
				break
			}
		}
		return nil
	}
	externals["(*sync.Map).Clear"] = func(fr *frame, a []value) value {
		cur.smOf(a[0].(*value)).entries = nil
		return nil
	}
	// mutexes: single-threaded execution, locking is a no-op
	for _, n := range []string{"(*sync.Mutex).Lock", "(*sync.Mutex).Unlock", "(*sync.RWMutex).Lock", "(*sync.RWMutex).Unlock", "(*sync.RWMutex).RLock", "(*sync.RWMutex).RUnlock"} {
		externals[n] = func(fr *frame, a []value) value { return nil }
	}
	externals["(*sync.Mutex).TryLock"] = func(fr *frame, a []value) value { return true }
}

// sync/atomic typed values (atomic.Pointer[T], atomic.Int32/64, atomic.Bool, atomic.Value):
// single-threaded execution, so they are plain cells. The value lives in the struct's last
// field slot (the only non-noCopy field) — we key by the address of the atomic object instead
// and keep the payload on the Explorer (per path).
func (e *Explorer) atomOf(p *value) *value {
	if e.atoms == nil {
		e.atoms = map[*value]*value{}
	}
	c := e.atoms[p]
	if c == nil {
		var v value
		c = &v
		e.atoms[p] = c
	}
	return c
}

func init() {
	load := func(zeroV value) externalFn {
		return func(fr *frame, a []value) value {
			c := cur.atomOf(a[0].(*value))
			if *c == nil {
				return zeroV
			}
			return *c
		}
	}
	store := func(fr *frame, a []value) value {
		p := a[0].(*value)
		if cur.freezeOn && cur.frozen[p] {
			// synchronised shared state: beyond the W/O reduction
			cur.noteInconclusive("C08: store through sync/atomic into state shared between executions (synchronised; not decided by the reduction)")
		}
		*cur.atomOf(p) = a[1]
		return nil
	}
	for _, t := range []string{"Int32", "Int64", "Uint32", "Uint64"} {
		var z value
		switch t {
		case "Int32":
			z = int32(0)
		case "Int64":
			z = int64(0)
		case "Uint32":
			z = uint32(0)
		case "Uint64":
			z = uint64(0)
		}
		externals["(*sync/atomic."+t+").Load"] = load(z)
		externals["(*sync/atomic."+t+").Store"] = store
		zz := z
		externals["(*sync/atomic."+t+").Add"] = func(fr *frame, a []value) value {
			c := cur.atomOf(a[0].(*value))
			if *c == nil {
				*c = zz
			}
			*c = binop(token.ADD, nil, *c, a[1])
			return *c
		}
	}
	externals["(*sync/atomic.Bool).Load"] = load(false)
	externals["(*sync/atomic.Bool).Store"] = store
	externals["(*sync/atomic.Value).Load"] = load(iface{})
	externals["(*sync/atomic.Value).Store"] = store
}

// atomic.Pointer[T] is generic: its methods are instantiated per T, so they are matched by prefix
func atomicPointerExternal(name string) externalFn {
	const pre = "(*sync/atomic.Pointer["
	if len(name) < len(pre) || name[:len(pre)] != pre {
		return nil
	}
	method := name[strings.Index(name, "]).")+3:] // e.g. Load[map[string][]int] for the instantiated method
	if k := strings.IndexByte(method, '['); k >= 0 {
		method = method[:k]
	}
	switch {
	case method == "Load":
		return func(fr *frame, a []value) value {
			c := cur.atomOf(a[0].(*value))
			if *c == nil {
				return (*value)(nil)
			}
			return *c
		}
	case method == "Store":
		return func(fr *frame, a []value) value {
			p := a[0].(*value)
			if cur.freezeOn && cur.frozen[p] {
				cur.noteInconclusive("C08: store through sync/atomic into state shared between executions (synchronised; not decided by the reduction)")
			}
			*cur.atomOf(p) = a[1]
			return nil
		}
	case method == "CompareAndSwap":
		return func(fr *frame, a []value) value {
			c := cur.atomOf(a[0].(*value))
			curV := *c
			if curV == nil {
				curV = (*value)(nil)
			}
			if curV == a[1] {
				*c = a[2]
				return true
			}
			return false
		}
	case method == "Swap":
		return func(fr *frame, a []value) value {
			c := cur.atomOf(a[0].(*value))
			old := *c
			if old == nil {
				old = (*value)(nil)
			}
			*c = a[1]
			return old
		}
	}
	return nil
}

func hasSuffix(s, suf string) bool { return len(s) >= len(suf) && s[len(s)-len(suf):] == suf }
