package symterp

import (
	"fmt"
	"go/token"
	"go/types"
	"strings"
)

// bounded byte-vector string: n = length (int or symI w=64), b = bytes (uint8 or symI w=8);
// len(b) is the capacity: n <= len(b) is asserted when n is symbolic.
type symStr struct {
	n value
	b []value
}

func byteTerm(v value) string {
	switch x := v.(type) {
	case uint8:
		return bvConst(uint64(x), 8)
	case symI:
		return x.t
	}
	panic(fmt.Sprintf("engine: byteTerm %T", v))
}
func lenTerm(v value) string {
	switch x := v.(type) {
	case int:
		return bvConst(uint64(x), 64)
	case symI:
		return x.t
	}
	panic(fmt.Sprintf("engine: lenTerm %T", v))
}

func newSymStr(name string, max int) (symStr, ndVar) {
	nt := cur.declare(name+".len", bvSort(64))
	n := symI{64, true, types.Int, nt}
	cur.assume(fmt.Sprintf("(bvule %s %s)", n.t, bvConst(uint64(max), 64)))
	s := symStr{n: n}
	v := ndVar{Name: name, Kind: "string", term: nt}
	for i := 0; i < max; i++ {
		bt := cur.declare(fmt.Sprintf("%s.b%d", name, i), bvSort(8))
		s.b = append(s.b, symI{8, false, types.Uint8, bt})
		v.bts = append(v.bts, bt)
	}
	return s, v
}

// concreteLen forks on the length until it is concrete.
func (s symStr) concreteLen() int {
	switch n := s.n.(type) {
	case int:
		return n
	case symI:
		return int(int64(cur.concretize(n)))
	}
	panic("engine: concreteLen")
}

// withConcreteLen returns the same string with a concrete length (forking).
func (s symStr) withConcreteLen() symStr {
	n := s.concreteLen()
	return symStr{n: n, b: s.b[:n]}
}

func oob(msg string) targetPanic {
	return targetPanic{iface{cur.interp.runtimeErrorString, "runtime error: " + msg}}
}

// s[i] with concrete i
func (s symStr) index(i int) value {
	if n, ok := s.n.(int); ok {
		if i < 0 || i >= n {
			panic(oob(fmt.Sprintf("index out of range [%d] with length %d", i, n)))
		}
		return s.b[i]
	}
	if i < 0 || i >= len(s.b) || !cur.branch(fmt.Sprintf("(bvsgt %s %s)", lenTerm(s.n), bvConst(uint64(i), 64))) {
		panic(oob(fmt.Sprintf("index out of range [%d]", i)))
	}
	return s.b[i]
}

// s[idx] with symbolic idx: bounds-check branch + ite chain
func (s symStr) indexSym(idx symI) value {
	if len(s.b) == 0 {
		panic(oob("index out of range (empty string)"))
	}
	inb := fmt.Sprintf("(and (bvsge %s %s) (bvslt %s %s))", idx.t, bvConst(0, 64), idx.t, lenTerm(s.n))
	if !cur.branch(inb) {
		panic(oob("index out of range (symbolic index)"))
	}
	t := byteTerm(s.b[len(s.b)-1])
	for i := len(s.b) - 2; i >= 0; i-- {
		t = fmt.Sprintf("(ite (= %s %s) %s %s)", idx.t, bvConst(uint64(i), 64), byteTerm(s.b[i]), t)
	}
	return newI(8, false, types.Uint8, t)
}

func (s symStr) slice(lo, hi value) value {
	l := 0
	if lo != nil {
		if sl, ok := lo.(symI); ok {
			l = int(int64(cur.concretize(sl)))
		} else {
			l = int(asInt64(lo))
		}
	}
	if l < 0 {
		panic(oob("slice bounds out of range"))
	}
	if hi == nil {
		if n, ok := s.n.(int); ok {
			if l > n {
				panic(oob("slice bounds out of range"))
			}
			return symStr{n: n - l, b: s.b[l:n]}.norm()
		}
		if l > len(s.b) || !cur.branch(fmt.Sprintf("(bvsge %s %s)", lenTerm(s.n), bvConst(uint64(l), 64))) {
			panic(oob("slice bounds out of range"))
		}
		if l == 0 {
			return s
		}
		return symStr{n: newI(64, true, types.Int, fmt.Sprintf("(bvsub %s %s)", lenTerm(s.n), bvConst(uint64(l), 64))), b: s.b[l:]}.norm()
	}
	if sh, ok := hi.(symI); ok {
		okc := fmt.Sprintf("(and (bvsle %s %s) (bvsle %s %s))", bvConst(uint64(l), 64), sh.t, sh.t, lenTerm(s.n))
		if !cur.branch(okc) {
			panic(oob("slice bounds out of range (symbolic)"))
		}
		nt := sh.t
		if l != 0 {
			nt = fmt.Sprintf("(bvsub %s %s)", sh.t, bvConst(uint64(l), 64))
		}
		if l > len(s.b) {
			l = len(s.b)
		}
		return symStr{n: newI(64, true, types.Int, nt), b: s.b[l:]}.norm()
	}
	h := int(asInt64(hi))
	if n, ok := s.n.(int); ok {
		if h > n || l > h {
			panic(oob("slice bounds out of range"))
		}
	} else if h > len(s.b) || l > h || !cur.branch(fmt.Sprintf("(bvsge %s %s)", lenTerm(s.n), bvConst(uint64(h), 64))) {
		panic(oob("slice bounds out of range"))
	}
	return symStr{n: h - l, b: s.b[l:h]}.norm()
}

// fully concrete => native string
func (s symStr) norm() value {
	n, ok := s.n.(int)
	if !ok {
		if len(s.b) == 0 {
			return ""
		}
		return s
	}
	var sb strings.Builder
	for i := 0; i < n; i++ {
		c, ok := s.b[i].(uint8)
		if !ok {
			return symStr{n: n, b: s.b[:n]}
		}
		sb.WriteByte(c)
	}
	return sb.String()
}

func liftStr(v value) (symStr, bool) {
	switch x := v.(type) {
	case symStr:
		return x, true
	case string:
		s := symStr{n: len(x)}
		for i := 0; i < len(x); i++ {
			s.b = append(s.b, x[i])
		}
		return s, true
	}
	return symStr{}, false
}

func symStrEq(a, b symStr) string {
	an, aok := a.n.(int)
	bn, bok := b.n.(int)
	if aok && bok && an != bn {
		return "false"
	}
	m := len(a.b)
	if len(b.b) < m {
		m = len(b.b)
	}
	conj := []string{}
	if !(aok && bok) {
		conj = append(conj, fmt.Sprintf("(= %s %s)", lenTerm(a.n), lenTerm(b.n)))
		// lengths beyond the shorter capacity are impossible
		if !aok {
			if len(a.b) > m {
				conj = append(conj, fmt.Sprintf("(bvule %s %s)", lenTerm(a.n), bvConst(uint64(m), 64)))
			}
		}
		if !bok {
			if len(b.b) > m {
				conj = append(conj, fmt.Sprintf("(bvule %s %s)", lenTerm(b.n), bvConst(uint64(m), 64)))
			}
		}
	}
	if aok && an < m {
		m = an
	}
	if bok && bn < m {
		m = bn
	}
	ln := a.n
	if !aok && bok {
		ln = b.n
	}
	for i := 0; i < m; i++ {
		eq := fmt.Sprintf("(= %s %s)", byteTerm(a.b[i]), byteTerm(b.b[i]))
		if ab, ok1 := a.b[i].(uint8); ok1 {
			if bb, ok2 := b.b[i].(uint8); ok2 {
				if ab == bb {
					eq = "true"
				} else {
					eq = "false"
				}
			}
		}
		if _, ok := ln.(int); ok {
			conj = append(conj, eq)
		} else {
			conj = append(conj, mkOr(fmt.Sprintf("(bvule %s %s)", lenTerm(ln), bvConst(uint64(i), 64)), eq))
		}
	}
	return mkAnd(conj...)
}

// lexicographic a < b (byte-wise, as Go compares strings)
func symStrLess(a, b symStr) string {
	m := len(a.b)
	if len(b.b) > m {
		m = len(b.b)
	}
	at := func(s symStr, i int) string {
		if i < len(s.b) {
			return byteTerm(s.b[i])
		}
		return bvConst(0, 8)
	}
	// less_i = "a[i:] < b[i:]"
	res := "false"
	for i := m; i >= 0; i-- {
		ai := bvConst(uint64(i), 64)
		aEnd := fmt.Sprintf("(bvule %s %s)", lenTerm(a.n), ai)
		bEnd := fmt.Sprintf("(bvule %s %s)", lenTerm(b.n), ai)
		if i == m {
			res = mkAnd(aEnd, mkNot(bEnd))
			continue
		}
		lt := fmt.Sprintf("(bvult %s %s)", at(a, i), at(b, i))
		eq := fmt.Sprintf("(= %s %s)", at(a, i), at(b, i))
		res = mkIte(bEnd, "false", mkIte(aEnd, "true", mkOr(lt, mkAnd(eq, res))))
	}
	return res
}

// concat needs a concrete length for the left operand (forks on it)
func symStrConcat(a, b symStr) value {
	if bn, ok := b.n.(int); ok && bn == 0 {
		return a.norm()
	}
	a = a.withConcreteLen()
	out := symStr{}
	out.b = append(out.b, a.b...)
	out.b = append(out.b, b.b...)
	an := a.n.(int)
	if bn, ok := b.n.(int); ok {
		out.n = an + bn
		out.b = out.b[:an+bn]
	} else if an == 0 {
		out.n = b.n
	} else {
		out.n = newI(64, true, types.Int, fmt.Sprintf("(bvadd %s %s)", bvConst(uint64(an), 64), lenTerm(b.n)))
	}
	return out.norm()
}

type symStrIter struct {
	fr *frame
	s  symStr
	i  int
}

func (it *symStrIter) next() tuple {
	if n, ok := it.s.n.(int); ok {
		if it.i >= n {
			return tuple{false, nil, nil}
		}
	} else if it.i >= len(it.s.b) || !cur.branch(fmt.Sprintf("(bvsgt %s %s)", lenTerm(it.s.n), bvConst(uint64(it.i), 64))) {
		return tuple{false, nil, nil}
	}
	dec := it.fr.i.prog.ImportedPackage("unicode/utf8").Func("DecodeRuneInString")
	rest := it.s.slice(it.i, nil)
	res := call(it.fr.i, it.fr, token.NoPos, dec, []value{rest}).(tuple)
	k := it.i
	sz := res[1]
	if ss, ok := sz.(symI); ok {
		sz = int(int64(cur.concretize(ss)))
	}
	it.i += int(asInt64(sz))
	return tuple{true, k, res[0]}
}
