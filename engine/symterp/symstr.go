package symterp

import (
	"fmt"
	"go/token"
	"go/types"
	"strings"
)

// bounded byte-vector string: n = length (int or symI w=64), b = bytes (uint8 or symI w=8), len(b) = max
type symStr struct {
	n value
	b []value
}

func byteTerm(v value) string {
	switch x := v.(type) {
	case uint8:
		return bvConst(uint64(x), 8)
	case symI:
		return x.t
	}
	panic(fmt.Sprintf("byteTerm %T", v))
}
func lenTerm(v value) string {
	switch x := v.(type) {
	case int:
		return bvConst(uint64(x), 64)
	case symI:
		return x.t
	}
	panic(fmt.Sprintf("lenTerm %T", v))
}

func newSymStr(name string, max int) symStr {
	n := symI{64, true, types.Int, cur.fresh("(_ BitVec 64)", name+".len")}
	cur.assume(fmt.Sprintf("(bvule %s %s)", n.t, bvConst(uint64(max), 64)))
	s := symStr{n: n}
	for i := 0; i < max; i++ {
		s.b = append(s.b, symI{8, false, types.Uint8, cur.fresh("(_ BitVec 8)", fmt.Sprintf("%s.b%d", name, i))})
	}
	return s
}

// s[i] with concrete i; forks an out-of-range panic path when not provably in range
func (s symStr) index(i int) value {
	if n, ok := s.n.(int); ok {
		if i < 0 || i >= n {
			panic(targetPanic{fmt.Sprintf("index out of range [%d] with length %d", i, n)})
		}
		return s.b[i]
	}
	if i < 0 || i >= len(s.b) || !cur.branch(fmt.Sprintf("(bvsgt %s %s)", lenTerm(s.n), bvConst(uint64(i), 64))) {
		panic(targetPanic{fmt.Sprintf("index out of range [%d] (symbolic length)", i)})
	}
	return s.b[i]
}

func (s symStr) slice(lo, hi value) value {
	l := 0
	if lo != nil {
		l = int(asInt64(lo))
	}
	if hi == nil {
		// s[l:] : need l <= len
		if n, ok := s.n.(int); ok {
			return symStr{n: n - l, b: s.b[l:n]}.norm()
		}
		if l > len(s.b) || !cur.branch(fmt.Sprintf("(bvsge %s %s)", lenTerm(s.n), bvConst(uint64(l), 64))) {
			panic(targetPanic{"slice bounds out of range"})
		}
		return symStr{n: symI{64, true, types.Int, fmt.Sprintf("(bvsub %s %s)", lenTerm(s.n), bvConst(uint64(l), 64))}, b: s.b[l:]}.norm()
	}
	if sh, ok := hi.(symI); ok {
		// symbolic upper bound, concrete lower bound: l <= hi <= len
		okc := fmt.Sprintf("(and (bvsle %s %s) (bvsle %s %s))", bvConst(uint64(l), 64), sh.t, sh.t, lenTerm(s.n))
		if !cur.branch(okc) {
			panic(targetPanic{"slice bounds out of range (symbolic)"})
		}
		return symStr{n: symI{64, true, types.Int, fmt.Sprintf("(bvsub %s %s)", sh.t, bvConst(uint64(l), 64))}, b: s.b[l:]}.norm()
	}
	h := int(asInt64(hi))
	if n, ok := s.n.(int); ok {
		if h > n || l > h {
			panic(targetPanic{"slice bounds out of range"})
		}
	} else if h > len(s.b) || !cur.branch(fmt.Sprintf("(bvsge %s %s)", lenTerm(s.n), bvConst(uint64(h), 64))) {
		panic(targetPanic{"slice bounds out of range"})
	}
	return symStr{n: h - l, b: s.b[l:h]}.norm()
}

// fully concrete => native string
func (s symStr) norm() value {
	n, ok := s.n.(int)
	if !ok {
		return s
	}
	var sb strings.Builder
	for i := 0; i < n; i++ {
		c, ok := s.b[i].(uint8)
		if !ok {
			return s
		}
		sb.WriteByte(c)
	}
	return sb.String()
}

func liftStr(v value) (symStr, bool) {
	switch x := v.(type) {
	case symStr:
		return x, true
	case string:
		s := symStr{n: len(x)}
		for i := 0; i < len(x); i++ {
			s.b = append(s.b, x[i])
		}
		return s, true
	}
	return symStr{}, false
}

func symStrEq(a, b symStr) symB {
	conj := []string{fmt.Sprintf("(= %s %s)", lenTerm(a.n), lenTerm(b.n))}
	m := len(a.b)
	if len(b.b) < m {
		m = len(b.b)
	}
	// lengths beyond the shorter capacity are impossible
	conj = append(conj, fmt.Sprintf("(bvule %s %s)", lenTerm(a.n), bvConst(uint64(m), 64)))
	for i := 0; i < m; i++ {
		conj = append(conj, fmt.Sprintf("(or (bvule %s %s) (= %s %s))", lenTerm(a.n), bvConst(uint64(i), 64), byteTerm(a.b[i]), byteTerm(b.b[i])))
	}
	return symB{"(and " + strings.Join(conj, " ") + ")"}
}

// pointer to an element selected by a symbolic index (read-only)
type symIdxPtr struct {
	elems []value
	idx   symI
}

// load through a symbolic index: ite chain grouped by distinct concrete values
func (p symIdxPtr) load() value {
	return iteLoad(p.elems, p.idx)
}

func iteLoad(elems []value, idx symI) value {
	switch e0 := elems[0].(type) {
	case structure:
		out := make(structure, len(e0))
		for f := range e0 {
			col := make([]value, len(elems))
			for i := range elems {
				col[i] = elems[i].(structure)[f]
			}
			out[f] = iteLoad(col, idx)
		}
		return out
	}
	// scalar column: group indices by value
	groups := map[string][]int{}
	var order []string
	w, signed, kind := 0, false, types.Invalid
	for i, e := range elems {
		si, ok := liftI(e)
		if !ok {
			panic(fmt.Sprintf("iteLoad elem %T", e))
		}
		w, signed, kind = si.w, si.signed, si.kind
		if _, seen := groups[si.t]; !seen {
			order = append(order, si.t)
		}
		groups[si.t] = append(groups[si.t], i)
	}
	if len(order) == 1 {
		si, _ := liftI(elems[0])
		return si
	}
	// biggest group becomes the default
	def := order[0]
	for _, k := range order {
		if len(groups[k]) > len(groups[def]) {
			def = k
		}
	}
	t := def
	for _, k := range order {
		if k == def {
			continue
		}
		var ds []string
		for _, i := range groups[k] {
			ds = append(ds, fmt.Sprintf("(= %s %s)", idx.t, bvConst(uint64(i), idx.w)))
		}
		c := ds[0]
		if len(ds) > 1 {
			c = "(or " + strings.Join(ds, " ") + ")"
		}
		t = fmt.Sprintf("(ite %s %s %s)", c, k, t)
	}
	return symI{w, signed, kind, t}
}

func symShift(op token.Token, a symI, y value) value {
	b, ok := liftI(y)
	if !ok {
		panic("shift count")
	}
	bt := b.t
	switch {
	case b.w < a.w:
		bt = fmt.Sprintf("((_ zero_extend %d) %s)", a.w-b.w, b.t)
	case b.w > a.w:
		// counts >= width saturate; spike: truncate (counts are small constants here)
		bt = fmt.Sprintf("((_ extract %d 0) %s)", a.w-1, b.t)
	}
	o := "bvshl"
	if op == token.SHR {
		o = "bvlshr"
		if a.signed {
			o = "bvashr"
		}
	}
	return symI{a.w, a.signed, a.kind, fmt.Sprintf("(%s %s %s)", o, a.t, bt)}
}

// s[idx] with symbolic idx: bounds-check branch + ite chain
func (s symStr) indexSym(idx symI) value {
	inb := fmt.Sprintf("(and (bvsge %s %s) (bvslt %s %s))", idx.t, bvConst(0, 64), idx.t, lenTerm(s.n))
	if !cur.branch(inb) {
		panic(targetPanic{"index out of range (symbolic index)"})
	}
	t := byteTerm(s.b[len(s.b)-1])
	for i := len(s.b) - 2; i >= 0; i-- {
		t = fmt.Sprintf("(ite (= %s %s) %s %s)", idx.t, bvConst(uint64(i), 64), byteTerm(s.b[i]), t)
	}
	return symI{8, false, types.Uint8, t}
}

type symStrIter struct {
	fr *frame
	s  symStr
	i  int
}

func (it *symStrIter) next() tuple {
	// done?
	if n, ok := it.s.n.(int); ok {
		if it.i >= n {
			return tuple{false, nil, nil}
		}
	} else if it.i >= len(it.s.b) || !cur.branch(fmt.Sprintf("(bvsgt %s %s)", lenTerm(it.s.n), bvConst(uint64(it.i), 64))) {
		return tuple{false, nil, nil}
	}
	dec := it.fr.i.prog.ImportedPackage("unicode/utf8").Func("DecodeRuneInString")
	rest := it.s.slice(it.i, nil)
	res := call(it.fr.i, it.fr, token.NoPos, dec, []value{rest}).(tuple)
	k := it.i
	it.i += int(asInt64(res[1]))
	return tuple{true, k, res[0]}
}
