// Copyright 2013 The Go Authors. All rights reserved.
// Use of this source code is governed by a BSD-style
// license that can be found in the LICENSE file.

package symterp

// Emulated functions that we cannot interpret because they are
// external or because they use "unsafe" or "reflect" operations.

import (
	"fmt"
	"go/types"
	"bytes"
	"math"
	"os"
	"runtime"
	"sort"
	"strconv"
	"strings"
	"time"
	"unicode/utf8"
)

type externalFn func(fr *frame, args []value) value

// TODO(adonovan): fix: reflect.Value abstracts an lvalue or an
// rvalue; Set() causes mutations that can be observed via aliases.
// We have not captured that correctly here.

// Key strings are from Function.String().
var externals = make(map[string]externalFn)

func init() {
	// That little dot ۰ is an Arabic zero numeral (U+06F0), categories [Nd].
	for k, v := range map[string]externalFn{
		"(reflect.Value).Bool":            ext۰reflect۰Value۰Bool,
		"(reflect.Value).CanAddr":         ext۰reflect۰Value۰CanAddr,
		"(reflect.Value).CanInterface":    ext۰reflect۰Value۰CanInterface,
		"(reflect.Value).Elem":            ext۰reflect۰Value۰Elem,
		"(reflect.Value).Field":           ext۰reflect۰Value۰Field,
		"(reflect.Value).Float":           ext۰reflect۰Value۰Float,
		"(reflect.Value).Index":           ext۰reflect۰Value۰Index,
		"(reflect.Value).Int":             ext۰reflect۰Value۰Int,
		"(reflect.Value).Interface":       ext۰reflect۰Value۰Interface,
		"(reflect.Value).IsNil":           ext۰reflect۰Value۰IsNil,
		"(reflect.Value).IsValid":         ext۰reflect۰Value۰IsValid,
		"(reflect.Value).Kind":            ext۰reflect۰Value۰Kind,
		"(reflect.Value).Len":             ext۰reflect۰Value۰Len,
		"(reflect.Value).MapIndex":        ext۰reflect۰Value۰MapIndex,
		"(reflect.Value).MapKeys":         ext۰reflect۰Value۰MapKeys,
		"(reflect.Value).NumField":        ext۰reflect۰Value۰NumField,
		"(reflect.Value).NumMethod":       ext۰reflect۰Value۰NumMethod,
		"(reflect.Value).Pointer":         ext۰reflect۰Value۰Pointer,
		"(reflect.Value).Set":             ext۰reflect۰Value۰Set,
		"(reflect.Value).String":          ext۰reflect۰Value۰String,
		"(reflect.Value).Type":            ext۰reflect۰Value۰Type,
		"(reflect.Value).Uint":            ext۰reflect۰Value۰Uint,
		"(reflect.error).Error":           ext۰reflect۰error۰Error,
		"(reflect.rtype).Bits":            ext۰reflect۰rtype۰Bits,
		"(reflect.rtype).Elem":            ext۰reflect۰rtype۰Elem,
		"(reflect.rtype).Field":           ext۰reflect۰rtype۰Field,
		"(reflect.rtype).In":              ext۰reflect۰rtype۰In,
		"(reflect.rtype).Kind":            ext۰reflect۰rtype۰Kind,
		"(reflect.rtype).NumField":        ext۰reflect۰rtype۰NumField,
		"(reflect.rtype).NumIn":           ext۰reflect۰rtype۰NumIn,
		"(reflect.rtype).NumMethod":       ext۰reflect۰rtype۰NumMethod,
		"(reflect.rtype).NumOut":          ext۰reflect۰rtype۰NumOut,
		"(reflect.rtype).Out":             ext۰reflect۰rtype۰Out,
		"(reflect.rtype).Size":            ext۰reflect۰rtype۰Size,
		"(reflect.rtype).String":          ext۰reflect۰rtype۰String,
		"bytes.Equal":                     ext۰bytes۰Equal,
		"bytes.IndexByte":                 ext۰bytes۰IndexByte,
		"fmt.Sprint":                      ext۰fmt۰Sprint,
		"math.Abs":                        ext۰math۰Abs,
		"math.Copysign":                   ext۰math۰Copysign,
		"math.Exp":                        ext۰math۰Exp,
		"math.Float32bits":                ext۰math۰Float32bits,
		"math.Float32frombits":            ext۰math۰Float32frombits,
		"math.Float64bits":                ext۰math۰Float64bits,
		"math.Float64frombits":            ext۰math۰Float64frombits,
		"math.Inf":                        ext۰math۰Inf,
		"math.IsNaN":                      ext۰math۰IsNaN,
		"math.Ldexp":                      ext۰math۰Ldexp,
		"math.Log":                        ext۰math۰Log,
		"math.Min":                        ext۰math۰Min,
		"math.NaN":                        ext۰math۰NaN,
		"math.Sqrt":                       ext۰math۰Sqrt,
		"os.Exit":                         ext۰os۰Exit,
		"os.Getenv":                       ext۰os۰Getenv,
		"reflect.New":                     ext۰reflect۰New,
		"reflect.SliceOf":                 ext۰reflect۰SliceOf,
		"reflect.TypeOf":                  ext۰reflect۰TypeOf,
		"reflect.ValueOf":                 ext۰reflect۰ValueOf,
		"reflect.Zero":                    ext۰reflect۰Zero,
		"runtime.Breakpoint":              ext۰runtime۰Breakpoint,
		"runtime.GC":                      ext۰runtime۰GC,
		"runtime.GOMAXPROCS":              ext۰runtime۰GOMAXPROCS,
		"runtime.GOROOT":                  ext۰runtime۰GOROOT,
		"runtime.Goexit":                  ext۰runtime۰Goexit,
		"runtime.Gosched":                 ext۰runtime۰Gosched,
		"runtime.NumCPU":                  ext۰runtime۰NumCPU,
		"sort.Float64s":                   ext۰sort۰Float64s,
		"sort.Ints":                       ext۰sort۰Ints,
		"sort.Strings":                    ext۰sort۰Strings,
		"strconv.Atoi":                    ext۰strconv۰Atoi,
		"strconv.Itoa":                    ext۰strconv۰Itoa,
		"strconv.FormatFloat":             ext۰strconv۰FormatFloat,
		"strconv.FormatInt":               ext۰strconv۰FormatInt,
		"strconv.FormatUint":              ext۰strconv۰FormatUint,
		"strconv.FormatBool":              ext۰strconv۰FormatBool,
		"strings.Count":                   ext۰strings۰Count,
		"strings.EqualFold":               ext۰strings۰EqualFold,
		"strings.Index":                   ext۰strings۰Index,
		"strings.IndexByte":               ext۰strings۰IndexByte,
		"strings.Replace":                 ext۰strings۰Replace,
		"strings.ToLower":                 ext۰strings۰ToLower,
		"time.Sleep":                      ext۰time۰Sleep,

	} {
		externals[k] = v
	}
}

func ext۰bytes۰Equal(fr *frame, args []value) value {
	// func Equal(a, b []byte) bool
	a := args[0].([]value)
	b := args[1].([]value)
	if len(a) != len(b) {
		return false
	}
	for i := range a {
		if a[i] != b[i] {
			return false
		}
	}
	return true
}

func ext۰bytes۰IndexByte(fr *frame, args []value) value {
	// func IndexByte(s []byte, c byte) int
	s := args[0].([]value)
	c := args[1].(byte)
	for i, b := range s {
		if b.(byte) == c {
			return i
		}
	}
	return -1
}

func ext۰math۰Float64frombits(fr *frame, args []value) value {
	return math.Float64frombits(args[0].(uint64))
}

func ext۰math۰Float64bits(fr *frame, args []value) value {
	if f, ok := args[0].(symF); ok {
		// a fresh bit pattern b with to_fp(b) = f (for NaN: any NaN pattern, as on real hardware)
		b := cur.fresh(bvSort(64), "f64bits")
		cur.assume(fmt.Sprintf("(= %s ((_ to_fp 11 53) %s))", f.t, b))
		return newI(64, false, types.Uint64, b)
	}
	return math.Float64bits(args[0].(float64))
}

func ext۰math۰Float32frombits(fr *frame, args []value) value {
	return math.Float32frombits(args[0].(uint32))
}

func ext۰math۰Abs(fr *frame, args []value) value {
	return math.Abs(args[0].(float64))
}

func ext۰math۰Copysign(fr *frame, args []value) value {
	return math.Copysign(args[0].(float64), args[1].(float64))
}

func ext۰math۰Exp(fr *frame, args []value) value {
	return math.Exp(args[0].(float64))
}

func ext۰math۰Float32bits(fr *frame, args []value) value {
	if f, ok := args[0].(symF); ok {
		b := cur.fresh(bvSort(32), "f32bits")
		cur.assume(fmt.Sprintf("(= %s ((_ to_fp 8 24) %s))", f.t, b))
		return newI(32, false, types.Uint32, b)
	}
	return math.Float32bits(args[0].(float32))
}

func ext۰math۰Min(fr *frame, args []value) value {
	return math.Min(args[0].(float64), args[1].(float64))
}

func ext۰math۰NaN(fr *frame, args []value) value {
	return math.NaN()
}

func ext۰math۰IsNaN(fr *frame, args []value) value {
	return math.IsNaN(args[0].(float64))
}

func ext۰math۰Inf(fr *frame, args []value) value {
	return math.Inf(args[0].(int))
}

func ext۰math۰Ldexp(fr *frame, args []value) value {
	return math.Ldexp(args[0].(float64), args[1].(int))
}

func ext۰math۰Log(fr *frame, args []value) value {
	return math.Log(args[0].(float64))
}

func ext۰math۰Sqrt(fr *frame, args []value) value {
	return math.Sqrt(args[0].(float64))
}

func ext۰runtime۰Breakpoint(fr *frame, args []value) value {
	runtime.Breakpoint()
	return nil
}

func ext۰sort۰Ints(fr *frame, args []value) value {
	x := args[0].([]value)
	sort.Slice(x, func(i, j int) bool {
		return x[i].(int) < x[j].(int)
	})
	return nil
}
func ext۰sort۰Strings(fr *frame, args []value) value {
	x := args[0].([]value)
	sort.Slice(x, func(i, j int) bool {
		return x[i].(string) < x[j].(string)
	})
	return nil
}
func ext۰sort۰Float64s(fr *frame, args []value) value {
	x := args[0].([]value)
	sort.Slice(x, func(i, j int) bool {
		return x[i].(float64) < x[j].(float64)
	})
	return nil
}

func ext۰strconv۰Atoi(fr *frame, args []value) value {
	i, e := strconv.Atoi(args[0].(string))
	if e != nil {
		return tuple{i, iface{fr.i.runtimeErrorString, e.Error()}}
	}
	return tuple{i, iface{}}
}
func ext۰strconv۰Itoa(fr *frame, args []value) value {
	if _, ok := args[0].(int); !ok && isSymScalar(args[0]) {
		return fmt.Sprint(toNative(args[0])) // the token fmt's %v gives for a symbolic value (an approximation, recorded)
	}
	return strconv.Itoa(args[0].(int))
}
func ext۰strconv۰FormatInt(fr *frame, args []value) value {
	if _, ok := args[0].(int64); !ok && isSymScalar(args[0]) {
		return fmt.Sprint(toNative(args[0]))
	}
	return strconv.FormatInt(args[0].(int64), args[1].(int))
}
func ext۰strconv۰FormatUint(fr *frame, args []value) value {
	if _, ok := args[0].(uint64); !ok && isSymScalar(args[0]) {
		return fmt.Sprint(toNative(args[0]))
	}
	return strconv.FormatUint(args[0].(uint64), args[1].(int))
}
func ext۰strconv۰FormatBool(fr *frame, args []value) value {
	if _, ok := args[0].(bool); !ok && isSymScalar(args[0]) {
		return fmt.Sprint(toNative(args[0]))
	}
	return strconv.FormatBool(args[0].(bool))
}
func ext۰strconv۰FormatFloat(fr *frame, args []value) value {
	if _, ok := args[0].(float64); !ok && isSymScalar(args[0]) {
		return fmt.Sprint(toNative(args[0])) // as above
	}
	return strconv.FormatFloat(args[0].(float64), args[1].(byte), args[2].(int), args[3].(int))
}

func ext۰strings۰Count(fr *frame, args []value) value {
	return strings.Count(args[0].(string), args[1].(string))
}

func ext۰strings۰EqualFold(fr *frame, args []value) value {
	return strings.EqualFold(args[0].(string), args[1].(string))
}
func ext۰strings۰IndexByte(fr *frame, args []value) value {
	if s, ok := args[0].(symStr); ok {
		// case split on the position of the first occurrence (concrete result per path)
		c := byteTerm(args[1])
		var before []string
		for i := 0; i < len(s.b); i++ {
			here := mkAnd(append(append([]string{}, before...),
				fmt.Sprintf("(bvsgt %s %s)", lenTerm(s.n), bvConst(uint64(i), 64)),
				fmt.Sprintf("(= %s %s)", byteTerm(s.b[i]), c))...)
			if cur.branch(here) {
				return i
			}
			before = append(before, fmt.Sprintf("(not (= %s %s))", byteTerm(s.b[i]), c))
		}
		return -1
	}
	return strings.IndexByte(args[0].(string), args[1].(byte))
}

func ext۰strings۰Index(fr *frame, args []value) value {
	return strings.Index(args[0].(string), args[1].(string))
}

func ext۰strings۰Replace(fr *frame, args []value) value {
	// func Replace(s, old, new string, n int) string
	s := args[0].(string)
	new := args[1].(string)
	old := args[2].(string)
	n := args[3].(int)
	return strings.Replace(s, old, new, n)
}

func ext۰strings۰ToLower(fr *frame, args []value) value {
	return strings.ToLower(args[0].(string))
}

func ext۰runtime۰GOMAXPROCS(fr *frame, args []value) value {
	// Ignore args[0]; don't let the interpreted program
	// set the interpreter's GOMAXPROCS!
	return runtime.GOMAXPROCS(0)
}

func ext۰runtime۰Goexit(fr *frame, args []value) value {
	// TODO(adonovan): don't kill the interpreter's main goroutine.
	runtime.Goexit()
	return nil
}

func ext۰runtime۰GOROOT(fr *frame, args []value) value {
	return runtime.GOROOT()
}

func ext۰runtime۰GC(fr *frame, args []value) value {
	runtime.GC()
	return nil
}

func ext۰runtime۰Gosched(fr *frame, args []value) value {
	runtime.Gosched()
	return nil
}

func ext۰runtime۰NumCPU(fr *frame, args []value) value {
	return runtime.NumCPU()
}

func ext۰time۰Sleep(fr *frame, args []value) value {
	time.Sleep(time.Duration(args[0].(int64)))
	return nil
}

func ext۰os۰Getenv(fr *frame, args []value) value {
	name := args[0].(string)
	switch name {
	case "GOSSAINTERP":
		return "1"
	}
	return os.Getenv(name)
}

func ext۰os۰Exit(fr *frame, args []value) value {
	panic(exitPanic(args[0].(int)))
}

func ext۰unicode۰utf8۰DecodeRuneInString(fr *frame, args []value) value {
	r, n := utf8.DecodeRuneInString(args[0].(string))
	return tuple{r, n}
}

// A fake function for turning an arbitrary value into a string.
// Handles only the cases needed by the tests.
// Uses same logic as 'print' built-in.
func ext۰fmt۰Sprint(fr *frame, args []value) value {
	buf := new(bytes.Buffer)
	wasStr := false
	for i, arg := range args[0].([]value) {
		x := arg.(iface).v
		_, isStr := x.(string)
		if i > 0 && !wasStr && !isStr {
			buf.WriteByte(' ')
		}
		wasStr = isStr
		buf.WriteString(toString(x))
	}
	return buf.String()
}
