package symterp

import (
	"bufio"
	"fmt"
	"io"
	"os"
	"os/exec"
	"strings"
	"time"
)

// solver is one `z3 -in` process driven over a pipe (SMT-LIB2 text).
type solver struct {
	cmd     *exec.Cmd
	in      io.WriteCloser
	out     *bufio.Reader
	log     io.Writer
	Errors  int // "(error" lines seen (queries affected are reported unknown)
	timeout int // ms per check-sat
}

var SolverBin = "z3"

func newSolver(timeoutMS int) *solver {
	args := []string{"-in"}
	if timeoutMS > 0 {
		args = append(args, fmt.Sprintf("-t:%d", timeoutMS))
	}
	cmd := exec.Command(SolverBin, args...)
	in, _ := cmd.StdinPipe()
	out, _ := cmd.StdoutPipe()
	cmd.Stderr = os.Stderr
	if err := cmd.Start(); err != nil {
		panic(err)
	}
	s := &solver{cmd: cmd, in: in, out: bufio.NewReaderSize(out, 1<<20), timeout: timeoutMS}
	if f := os.Getenv("GOSYM_SMTLOG"); f != "" {
		w, _ := os.Create(f)
		s.log = w
	}
	s.send("(set-option :global-declarations true)")
	return s
}

func (s *solver) close() {
	s.in.Close()
	s.cmd.Process.Kill()
	s.cmd.Wait()
}

func (s *solver) send(t string) {
	if s.log != nil {
		io.WriteString(s.log, t+"\n")
	}
	io.WriteString(s.in, t+"\n")
}

func (s *solver) readLine() string {
	l, err := s.out.ReadString('\n')
	if err != nil {
		return "(error \"solver pipe closed\")"
	}
	return strings.TrimSpace(l)
}

// checkSat sends (check-sat) and returns sat|unsat|unknown. Any (error line seen while
// waiting makes the answer unknown (an old z3 may drop an assertion and still answer).
func (s *solver) checkSat() string {
	s.send("(check-sat)")
	bad := false
	for {
		l := s.readLine()
		switch {
		case l == "sat" || l == "unsat" || l == "unknown":
			if bad {
				return "unknown"
			}
			return l
		case strings.HasPrefix(l, "(error"):
			s.Errors++
			bad = true
			fmt.Fprintln(os.Stderr, "SOLVER:", l)
			if strings.Contains(l, "pipe closed") {
				return "unknown"
			}
		case l == "":
		default:
			fmt.Fprintln(os.Stderr, "SOLVER?:", l)
		}
	}
}

// readSexp reads one balanced s-expression (possibly spanning lines).
func (s *solver) readSexp() string {
	var sb strings.Builder
	depth := 0
	started := false
	inQuote := false
	for {
		l, err := s.out.ReadString('\n')
		if err != nil {
			break
		}
		sb.WriteString(l)
		for _, c := range l {
			switch {
			case c == '|':
				inQuote = !inQuote
			case inQuote:
			case c == '(':
				depth++
				started = true
			case c == ')':
				depth--
			}
		}
		if started && depth <= 0 {
			break
		}
	}
	return sb.String()
}

// getValues evaluates terms in the current (sat) context; returns the raw value text per term.
func (s *solver) getValues(terms []string) []string {
	out := make([]string, len(terms))
	for i, t := range terms {
		s.send("(get-value (" + t + "))")
		r := strings.TrimSpace(s.readSexp())
		// ((term value))
		r = strings.TrimSuffix(strings.TrimPrefix(r, "(("), "))")
		// strip the echoed term: it is printed first; value follows. Find by balanced skip.
		out[i] = strings.TrimSpace(skipSexp(r))
	}
	return out
}

// skipSexp drops the first s-expression/atom of r and returns the rest.
func skipSexp(r string) string {
	r = strings.TrimSpace(r)
	if r == "" {
		return r
	}
	if r[0] == '|' {
		j := strings.IndexByte(r[1:], '|')
		return r[j+2:]
	}
	if r[0] != '(' {
		j := strings.IndexAny(r, " \t\n")
		if j < 0 {
			return ""
		}
		return r[j:]
	}
	depth := 0
	inQ := false
	for i, c := range r {
		switch {
		case c == '|':
			inQ = !inQ
		case inQ:
		case c == '(':
			depth++
		case c == ')':
			depth--
			if depth == 0 {
				return r[i+1:]
			}
		}
	}
	return ""
}

var _ = time.Now

// oneShot decides pc ∧ extra with fresh non-incremental solver processes (z3, then z3-new, then
// cvc5): the incremental core is much weaker on floating-point conversions.
// SecondOpinion: how many discharged assertions per (job, label) are re-decided by z3-new and cvc5.
var SecondOpinion = 0

func (e *Explorer) script(extra string) string {
	var sb strings.Builder
	for _, d := range e.decls {
		sb.WriteString(d + "\n")
	}
	for _, c := range e.pc {
		sb.WriteString("(assert " + c + ")\n")
	}
	if extra != "" && extra != "true" {
		sb.WriteString("(assert " + extra + ")\n")
	}
	sb.WriteString("(check-sat)\n")
	return sb.String()
}

func (e *Explorer) oneShotWith(cmdline []string, extra string) string {
	text := e.script(extra)
	if cmdline[0] == "cvc5" {
		text = "(set-logic ALL)\n" + text
	}
	cmd := exec.Command(cmdline[0], cmdline[1:]...)
	cmd.Stdin = strings.NewReader(text)
	out, _ := cmd.Output()
	ans := "unknown"
	for _, l := range strings.Split(string(out), "\n") {
		l = strings.TrimSpace(l)
		if strings.HasPrefix(l, "(error") {
			return "unknown"
		}
		if l == "sat" || l == "unsat" {
			ans = l
		}
	}
	return ans
}

func (e *Explorer) oneShot(extra string) string {
	var sb strings.Builder
	for _, d := range e.decls {
		sb.WriteString(d + "\n")
	}
	for _, c := range e.pc {
		sb.WriteString("(assert " + c + ")\n")
	}
	if extra != "" && extra != "true" {
		sb.WriteString("(assert " + extra + ")\n")
	}
	sb.WriteString("(check-sat)\n")
	e.OneShots++
	for _, cmdline := range [][]string{{"z3", "-in", "-T:30"}, {"z3-new", "-in", "-T:30"}, {"cvc5", "--lang=smt2", "--tlimit=30000", "-"}} {
		cmd := exec.Command(cmdline[0], cmdline[1:]...)
		text := sb.String()
		if cmdline[0] == "cvc5" {
			text = "(set-logic ALL)\n" + text
		}
		cmd.Stdin = strings.NewReader(text)
		out, _ := cmd.Output()
		ans := "unknown"
		bad := false
		for _, l := range strings.Split(string(out), "\n") {
			l = strings.TrimSpace(l)
			if strings.HasPrefix(l, "(error") {
				bad = true
			}
			if l == "sat" || l == "unsat" {
				ans = l
			}
		}
		if !bad && ans != "unknown" {
			return ans
		}
	}
	return "unknown"
}
