package symterp

import (
	"fmt"
	"sort"
	"strconv"
	"strings"
	"time"
)

// ---- exploration state -----------------------------------------------------------------
//
// One Explorer explores one job (one harness call) by re-execution: every path is a fresh run
// of the harness from scratch under a prefix of recorded decisions; after the prefix, symbolic
// branches ask the solver which sides are feasible and n-ary choice points take their last
// alternative first; next() flips the deepest decision that still has an unexplored side.

type decision struct {
	n      int    // arity (2 for symbolic branches)
	taken  int    // alternative taken on the current path
	forced bool   // no further alternative to explore
	cond   string // symbolic branches: the condition term
	label  string // choice points: label (for replay scripts)
}

// nondet variable created by the harness (or the engine) on the current path.
type ndVar struct {
	Name string // script key
	Kind string // int|int32|int64|byte|bool|float64|float32|string|choice
	term string // SMT term (for string: length term)
	bts  []string
	val  string // concrete value for choices
}

type Violation struct {
	Job    string            `json:"job"`
	Label  string            `json:"label"`
	Script map[string]string `json:"script"`
	Trace  []string          `json:"trace"`
	Sched  []string          `json:"sched,omitempty"` // schedule decisions (map orders, pool picks)
	Panic  string            `json:"panic,omitempty"`
	Stack  []string          `json:"stack,omitempty"`
}

type Sample struct {
	Job    string            `json:"job"`
	Script map[string]string `json:"script"`
	Trace  []string          `json:"trace"`
	Sched  []string          `json:"sched,omitempty"`
}

type JobResult struct {
	Job          string         `json:"job"`
	Paths        int            `json:"paths"`
	Decisions    int            `json:"decisions"`
	Queries      int            `json:"queries"`
	CacheHits    int            `json:"cache_hits"`
	SolverMS     int64          `json:"solver_ms"`
	WallMS       int64          `json:"wall_ms"`
	Covers       map[string]int `json:"covers"`
	Asserts      map[string]int `json:"asserts"` // label -> times checked (discharged or violated)
	Violations   []Violation    `json:"violations"`
	ViolCount    map[string]int `json:"viol_count"`
	Samples      []Sample       `json:"samples"`
	Inconclusive []string       `json:"inconclusive"`
	AssumedAway  int            `json:"assumed_away"`
	Truncated    bool           `json:"truncated"`
	Funcs        []string       `json:"funcs,omitempty"`
	Approx       map[string]int `json:"approx,omitempty"` // approximations used (stubs etc.)
	SecondOpinions       int `json:"second_opinions,omitempty"`
	SolverDisagreements  int `json:"solver_disagreements,omitempty"`
	SecondOpinionUnknown int `json:"second_opinion_unknown,omitempty"`
}

type Explorer struct {
	z      *solver
	job    string
	stack  []decision
	pos    int
	pc     []string // path condition conjuncts
	pcSet  map[string]bool
	zstack []string // what the solver currently has asserted (one push level each)

	nfresh   int
	declared map[string]bool
	defs     map[string]string // interned long terms: term -> name
	decls    []string          // every declaration/definition sent so far (for one-shot fallbacks)
	secondAsked map[string]int
	OneShots int
	ndefs    int

	vars  []ndVar
	nseq  map[string]int
	trace []string
	sched []string

	res       *JobResult
	funcs     map[string]bool
	qcache    map[string]string
	poolPick  bool
	mapOrder  bool
	inconcl   bool // current path touched something inconclusive
	pools     map[*value]*pool
	builders  map[*value]string
	env       map[string]value
	onces     map[*value]bool
	syncMaps  map[*value]*syncMapModel
	ufCache   map[string][2]string
	ufUsed    bool // this path went through an uninterpreted parser: its model need not be a real parse
	atoms     map[*value]*value
	interp    *interpreter
	steps     int
	violated  bool
	modelless bool // last kept sat context has no model available (one-shot fallback answered)
	// C08 monitors: cells and maps reachable from the shared (frozen) roots, pooled objects
	freezeOn   bool
	frozen     map[*value]bool
	frozenMaps map[uintptr]bool
	pooledObjs map[*value]bool
	monitored  map[string]bool
	flags      int
	MaxViolPerLabel int
	MaxSamples      int
}

var cur *Explorer

type pathAbort struct{ why string }

func (e *Explorer) resetPath() {
	e.pos, e.pc, e.nfresh = 0, nil, 0
	e.pcSet = map[string]bool{}
	e.vars = nil
	e.nseq = map[string]int{}
	e.trace = nil
	e.sched = nil
	e.poolPick = false
	e.mapOrder = true
	e.inconcl = false
	e.steps = 0
	e.violated = false
	e.freezeOn = false
	e.ufCache = map[string][2]string{}
	e.ufUsed = false
	e.atoms = nil
	e.flags = 0
	e.frozen, e.frozenMaps, e.pooledObjs, e.monitored = nil, nil, map[*value]bool{}, map[string]bool{}
}

func (e *Explorer) declare(name, sort string) string {
	q := "|" + name + "|"
	if !e.declared[name] {
		e.declared[name] = true
		d := fmt.Sprintf("(declare-const %s %s)", q, sort)
		e.decls = append(e.decls, d)
		e.z.send(d)
	}
	return q
}

// fresh engine-internal variable (names are derived from the per-path sequence so they are
// identical across re-executions of the same prefix)
func (e *Explorer) fresh(sort, hint string) string {
	name := fmt.Sprintf("%s!%d", hint, e.nfresh)
	e.nfresh++
	return e.declare(name+":"+sortTag(sort), sort)
}

func sortTag(sort string) string {
	r := strings.NewReplacer("(", "", ")", "", " ", "", "_", "")
	return r.Replace(sort)
}

// share interns a long term under a defined name so that it is sent to the solver once.
func (e *Explorer) share(term, sort string) string {
	if len(term) < 160 {
		return term
	}
	if n, ok := e.defs[term]; ok {
		return n
	}
	name := fmt.Sprintf("|t!%d|", e.ndefs)
	e.ndefs++
	d := fmt.Sprintf("(define-fun %s () %s %s)", name, sort, term)
	e.decls = append(e.decls, d)
	e.z.send(d)
	e.defs[term] = name
	return name
}

func (e *Explorer) ndName(name string) string {
	k := e.nseq[name]
	e.nseq[name] = k + 1
	if k == 0 {
		return name
	}
	return name + "#" + strconv.Itoa(k)
}

func (e *Explorer) assume(c string) {
	if c == "true" {
		return
	}
	e.pc = append(e.pc, c)
	e.pcSet[c] = true
}

// sat decides pc ∧ extra. Leaves the solver with pc asserted (extra popped).
func (e *Explorer) sat(extra string) string {
	return e.satKeep(extra, false)
}

func (e *Explorer) syncStack() {
	lcp := 0
	for lcp < len(e.zstack) && lcp < len(e.pc) && e.zstack[lcp] == e.pc[lcp] {
		lcp++
	}
	var sb strings.Builder
	for i := len(e.zstack); i > lcp; i-- {
		sb.WriteString("(pop)\n")
	}
	e.zstack = e.zstack[:lcp]
	for _, c := range e.pc[lcp:] {
		sb.WriteString("(push)\n(assert " + c + ")\n")
		e.zstack = append(e.zstack, c)
	}
	if sb.Len() > 0 {
		e.z.send(strings.TrimRight(sb.String(), "\n"))
	}
}

// satKeep: if keep, the extra assertion stays pushed (caller must call e.z.send("(pop)")).
func (e *Explorer) satKeep(extra string, keep bool) string {
	if extra == "false" {
		if keep {
			e.syncStack()
			e.z.send("(push)")
		}
		return "unsat"
	}
	e.res.Queries++
	t0 := time.Now()
	e.syncStack()
	e.z.send("(push)")
	if extra != "" && extra != "true" {
		e.z.send("(assert " + extra + ")")
	}
	r := e.z.checkSat()
	if r == "unknown" {
		// the incremental core gave up: ask fresh one-shot solvers (full tactic pipeline)
		if r2 := e.oneShot(extra); r2 != "unknown" {
			r = r2
			if keep && r == "sat" {
				// the caller wants a model from the kept context: retry there with more time
				e.z.send("(pop)")
				e.z.send("(push)")
				if extra != "" && extra != "true" {
					e.z.send("(assert " + extra + ")")
				}
				if rr := e.z.checkSat(); rr != "sat" {
					e.modelless = true
				}
			}
		}
	}
	if !keep {
		e.z.send("(pop)")
	}
	e.res.SolverMS += time.Since(t0).Microseconds()
	return r
}

// branch decides a symbolic condition and records the decision.
func (e *Explorer) branch(c string) bool {
	if c == "true" {
		return true
	}
	if c == "false" {
		return false
	}
	if e.pos < len(e.stack) {
		d := e.stack[e.pos]
		e.pos++
		if d.n != 2 || d.cond != c {
			panic(pathAbort{fmt.Sprintf("engine: replay divergence at decision %d: recorded %q now %q", e.pos-1, d.cond, c)})
		}
		if d.taken == 1 {
			e.assume(c)
			return true
		}
		e.assume(mkNot(c))
		return false
	}
	// a condition that is literally part of the path condition (or whose negation is) needs no
	// solver call: the reference and the code under test often evaluate the same comparison
	var rt, rf string
	switch {
	case e.pcSet[c]:
		rt, rf = "sat", "unsat"
		e.res.CacheHits++
	case e.pcSet[mkNot(c)]:
		rt, rf = "unsat", "sat"
		e.res.CacheHits++
	default:
		rt = e.sat(c)
		rf = "sat"
		if rt != "unsat" {
			rf = e.sat(mkNot(c))
		}
	}
	d := decision{n: 2, cond: c}
	switch {
	case rt == "unknown" || rf == "unknown":
		// keep both sides, path is inconclusive
		e.noteInconclusive("solver unknown at branch")
		d.taken = 1
		if rt == "unsat" {
			d.taken, d.forced = 0, true
		} else if rf == "unsat" {
			d.forced = true
		}
	case rt == "sat" && rf == "sat":
		d.taken = 1
	case rt == "sat":
		d.taken, d.forced = 1, true
	case rf == "sat":
		d.taken, d.forced = 0, true
	default:
		panic(pathAbort{"engine: path condition became infeasible"})
	}
	e.stack = append(e.stack, d)
	e.pos++
	e.res.Decisions++
	if d.taken == 1 {
		e.assume(c)
		return true
	}
	e.assume(mkNot(c))
	return false
}

// choose is an n-ary concrete choice point, explored exhaustively.
func (e *Explorer) choose(n int, label string) int {
	if n <= 1 {
		return 0
	}
	if e.pos < len(e.stack) {
		d := e.stack[e.pos]
		e.pos++
		if d.n != n || d.cond != "" {
			panic(pathAbort{fmt.Sprintf("engine: replay divergence at choice %d (%s): recorded arity %d now %d", e.pos-1, label, d.n, n)})
		}
		return d.taken
	}
	e.stack = append(e.stack, decision{n: n, taken: n - 1, label: label})
	e.pos++
	e.res.Decisions++
	return n - 1
}

// next advances to the next unexplored path; false when the space is exhausted.
func (e *Explorer) next() bool {
	for len(e.stack) > 0 {
		d := &e.stack[len(e.stack)-1]
		if !d.forced && d.taken > 0 {
			d.taken--
			if d.n == 2 || d.taken == 0 {
				d.forced = true
			}
			return true
		}
		e.stack = e.stack[:len(e.stack)-1]
	}
	return false
}

func (e *Explorer) noteInconclusive(why string) {
	e.inconcl = true
	if len(e.res.Inconclusive) < 50 {
		e.res.Inconclusive = append(e.res.Inconclusive, e.job+": "+why)
	}
}

func (e *Explorer) approx(what string) {
	if e.res.Approx == nil {
		e.res.Approx = map[string]int{}
	}
	e.res.Approx[what]++
}

// concretize picks every feasible value of x in turn (one fork per value).
func (e *Explorer) concretize(x symI) uint64 {
	for {
		if e.pos < len(e.stack) {
			d := e.stack[e.pos]
			var u uint64
			if k := strings.LastIndex(d.cond, "(_ bv"); k >= 0 {
				fmt.Sscanf(d.cond[k+5:], "%d", &u)
			} else {
				panic(pathAbort{"engine: concretize replay divergence"})
			}
			if e.branch(d.cond) {
				return u
			}
			continue
		}
		r := e.satKeep("", true)
		if r != "sat" {
			e.z.send("(pop)")
			if r == "unknown" {
				e.noteInconclusive("solver unknown in concretize")
			}
			panic(pathAbort{"concretize: " + r})
		}
		vals := e.z.getValues([]string{x.t})
		e.z.send("(pop)")
		u, ok := parseBV(vals[0])
		if !ok {
			panic(pathAbort{"engine: concretize parse: " + vals[0]})
		}
		if e.branch(fmt.Sprintf("(= %s %s)", x.t, bvConst(u, x.w))) {
			return u
		}
	}
}

func parseBV(s string) (uint64, bool) {
	s = strings.TrimSpace(s)
	if strings.HasPrefix(s, "#x") {
		u, err := strconv.ParseUint(s[2:], 16, 64)
		return u, err == nil
	}
	if strings.HasPrefix(s, "#b") {
		u, err := strconv.ParseUint(s[2:], 2, 64)
		return u, err == nil
	}
	if strings.HasPrefix(s, "(_ bv") {
		var u uint64
		_, err := fmt.Sscanf(s[5:], "%d", &u)
		return u, err == nil
	}
	return 0, false
}

// model extracts a replay script from the current solver context (must be sat and kept).
func (e *Explorer) model() map[string]string {
	if e.modelless {
		e.modelless = false
		e.noteInconclusive("sat answered by a one-shot solver only: no model available")
		return nil
	}
	script := map[string]string{}
	var terms []string
	for _, v := range e.vars {
		switch v.Kind {
		case "choice":
			script[v.Name] = v.val
		case "string":
			terms = append(terms, v.term)
			terms = append(terms, v.bts...)
		default:
			terms = append(terms, v.term)
		}
	}
	vals := e.z.getValues(terms)
	k := 0
	for _, v := range e.vars {
		switch v.Kind {
		case "choice":
		case "bool":
			script[v.Name] = strings.TrimSpace(vals[k])
			k++
		case "string":
			n, _ := parseBV(vals[k])
			k++
			bs := make([]byte, 0, len(v.bts))
			for i := range v.bts {
				b, _ := parseBV(vals[k+i])
				if uint64(i) < n {
					bs = append(bs, byte(b))
				}
			}
			k += len(v.bts)
			script[v.Name] = strconv.Quote(string(bs))
		case "float64", "float32":
			u, _ := parseBV(vals[k])
			k++
			script[v.Name] = fmt.Sprintf("0x%x", u)
		case "int", "int64":
			u, _ := parseBV(vals[k])
			k++
			script[v.Name] = strconv.FormatInt(int64(u), 10)
		case "int32":
			u, _ := parseBV(vals[k])
			k++
			script[v.Name] = strconv.FormatInt(int64(int32(uint32(u))), 10)
		case "byte":
			u, _ := parseBV(vals[k])
			k++
			script[v.Name] = strconv.FormatUint(u, 10)
		default:
			k++
		}
	}
	return script
}

func (e *Explorer) recordViolation(label string, script map[string]string, pmsg string, stack []string) {
	e.violated = true
	if e.res.ViolCount == nil {
		e.res.ViolCount = map[string]int{}
	}
	e.res.ViolCount[label]++
	if e.res.ViolCount[label] > e.MaxViolPerLabel {
		return
	}
	tr := append(append([]string{}, e.trace...), "FAIL:"+label)
	e.res.Violations = append(e.res.Violations, Violation{Job: e.job, Label: label, Script: script, Trace: tr,
		Sched: append([]string{}, e.sched...), Panic: pmsg, Stack: stack})
}

// assertion: returns after assuming c (path continues) or aborts the path when c cannot hold.
func (e *Explorer) assert(cv value, label string) {
	e.res.Asserts[label]++
	if b, ok := cv.(bool); ok {
		if b {
			e.trace = append(e.trace, "ok:"+label)
			return
		}
		r := e.satKeep("", true)
		var script map[string]string
		if r == "sat" {
			script = e.model()
		}
		e.z.send("(pop)")
		if r == "unknown" {
			e.noteInconclusive("solver unknown at assertion " + label)
		}
		e.recordViolation(label, script, "", nil)
		panic(pathAbort{"violation"})
	}
	c := cv.(symB).t
	r := e.satKeep(mkNot(c), true)
	if r == "unsat" && SecondOpinion > 0 && e.secondAsked[label] < SecondOpinion {
		// thorough tier: a sample of the discharged obligations is re-decided by two other solvers
		e.secondAsked[label]++
		e.res.SecondOpinions++
		for _, alt := range [][]string{{"z3-new", "-in", "-T:30"}, {"cvc5", "--lang=smt2", "--tlimit=30000", "-"}} {
			if a := e.oneShotWith(alt, mkNot(c)); a == "sat" {
				e.res.SolverDisagreements++
				e.noteInconclusive("solver disagreement at assertion " + label + ": z3 says unsat, " + alt[0] + " says sat")
			} else if a == "unknown" {
				e.res.SecondOpinionUnknown++
			}
		}
	}
	switch r {
	case "sat":
		script := e.model()
		e.z.send("(pop)")
		e.recordViolation(label, script, "", nil)
	case "unknown":
		e.z.send("(pop)")
		e.noteInconclusive("solver unknown at assertion " + label)
	default:
		e.z.send("(pop)")
	}
	// continue with c assumed, if possible
	if r != "unsat" {
		if e.sat(c) != "sat" {
			panic(pathAbort{"assertion can only fail here"})
		}
	}
	e.assume(c)
	e.trace = append(e.trace, "ok:"+label)
}

func (e *Explorer) assumeV(cv value) {
	if b, ok := cv.(bool); ok {
		if !b {
			e.res.AssumedAway++
			panic(pathAbort{"assumed away"})
		}
		return
	}
	c := cv.(symB).t
	e.assume(c)
	r := e.sat("")
	if r == "unsat" {
		e.res.AssumedAway++
		panic(pathAbort{"assumed away"})
	}
	if r == "unknown" {
		e.noteInconclusive("solver unknown at assume")
	}
}

func (e *Explorer) sampleModel() map[string]string {
	r := e.satKeep("", true)
	var script map[string]string
	if r == "sat" {
		script = e.model()
	}
	e.z.send("(pop)")
	return script
}

func sortedKeysS(m map[string]bool) []string {
	ks := make([]string, 0, len(m))
	for k := range m {
		ks = append(ks, k)
	}
	sort.Strings(ks)
	return ks
}
