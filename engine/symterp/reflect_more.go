package symterp

import (
	"fmt"
	"go/types"
	"reflect"
	"strings"
)

// More of the reflect API, so that refactors of zog that reach for other reflect calls are
// still executed rather than reported inconclusive.

func rtErr(fr *frame, msg string) targetPanic {
	return targetPanic{iface{fr.i.runtimeErrorString, msg}}
}

func moreRtypeMethods(i *interpreter) {
	for _, n := range []string{"Comparable", "Name", "PkgPath", "Len", "Implements", "AssignableTo", "ConvertibleTo", "FieldByIndex"} {
		i.rtypeMethods[n] = newMethod(i.reflectPackage, rtypeType, n)
	}
}

func setNumeric(fr *frame, args []value, conv func(t types.Type, x value) value) value {
	a := rV2A(args[0])
	if a == nil {
		panic(rtErr(fr, "reflect: reflect.Value.Set using unaddressable value"))
	}
	*a = conv(rV2T(args[0]).t, args[1])
	return nil
}

func init() {
	for k, f := range map[string]externalFn{
		"(reflect.rtype).Comparable": func(fr *frame, a []value) value { return types.Comparable(a[0].(rtype).t) },
		"(reflect.rtype).Name": func(fr *frame, a []value) value {
			switch t := a[0].(rtype).t.(type) {
			case *types.Named:
				return t.Obj().Name()
			case *types.Basic:
				return t.Name()
			}
			return ""
		},
		"(reflect.rtype).PkgPath": func(fr *frame, a []value) value {
			if t, ok := a[0].(rtype).t.(*types.Named); ok && t.Obj().Pkg() != nil {
				return t.Obj().Pkg().Path()
			}
			return ""
		},
		"(reflect.rtype).Len": func(fr *frame, a []value) value {
			return int(a[0].(rtype).t.Underlying().(*types.Array).Len())
		},
		"(reflect.rtype).AssignableTo": func(fr *frame, a []value) value {
			return types.AssignableTo(a[0].(rtype).t, a[1].(iface).v.(rtype).t)
		},
		"(reflect.rtype).ConvertibleTo": func(fr *frame, a []value) value {
			return types.ConvertibleTo(a[0].(rtype).t, a[1].(iface).v.(rtype).t)
		},
		"(reflect.rtype).Implements": func(fr *frame, a []value) value {
			it, ok := a[1].(iface).v.(rtype).t.Underlying().(*types.Interface)
			if !ok {
				panic(rtErr(fr, "reflect: non-interface type passed to Type.Implements"))
			}
			return types.Implements(a[0].(rtype).t, it)
		},
		"(reflect.Value).CanSet": func(fr *frame, a []value) value { return rV2A(a[0]) != nil && !rVRO(a[0]) },
		"(reflect.Value).Cap": func(fr *frame, a []value) value {
			switch x := rV2V(a[0]).(type) {
			case []value:
				return cap(x)
			case array:
				return len(x)
			}
			panic(rtErr(fr, "reflect: call of reflect.Value.Cap on non-slice"))
		},
		"(reflect.Value).SetInt": func(fr *frame, a []value) value {
			return setNumeric(fr, a, func(t types.Type, x value) value { return conv(t, types.Typ[types.Int64], x) })
		},
		"(reflect.Value).SetUint": func(fr *frame, a []value) value {
			return setNumeric(fr, a, func(t types.Type, x value) value { return conv(t, types.Typ[types.Uint64], x) })
		},
		"(reflect.Value).SetFloat": func(fr *frame, a []value) value {
			return setNumeric(fr, a, func(t types.Type, x value) value { return conv(t, types.Typ[types.Float64], x) })
		},
		"(reflect.Value).SetString": func(fr *frame, a []value) value {
			return setNumeric(fr, a, func(t types.Type, x value) value { return x })
		},
		"(reflect.Value).SetBool": func(fr *frame, a []value) value {
			return setNumeric(fr, a, func(t types.Type, x value) value { return x })
		},
		"(reflect.Value).Convert": func(fr *frame, a []value) value {
			dst := a[1].(iface).v.(rtype).t
			src := rV2T(a[0]).t
			if src == nil || !types.ConvertibleTo(src, dst) {
				panic(rtErr(fr, fmt.Sprintf("reflect.Value.Convert: value of type %v cannot be converted to type %v", src, dst)))
			}
			if types.IdenticalIgnoreTags(dst.Underlying(), src.Underlying()) {
				return makeReflectValue(dst, rV2V(a[0])) // same representation (named <-> unnamed)
			}
			return makeReflectValue(dst, conv(dst, src, rV2V(a[0])))
		},
		"(reflect.Value).CanConvert": func(fr *frame, a []value) value {
			return types.ConvertibleTo(rV2T(a[0]).t, a[1].(iface).v.(rtype).t)
		},
		"(reflect.Value).Comparable": func(fr *frame, a []value) value { return types.Comparable(rV2T(a[0]).t) },
		"(reflect.Value).Equal": func(fr *frame, a []value) value {
			return boolVal(eqTerm(rV2T(a[0]).t, rV2V(a[0]), rV2V(a[1])))
		},
		"(reflect.Value).IsNilSafe": nil,
		"(reflect.Value).FieldByIndex": func(fr *frame, a []value) value {
			index := make([]int, len(a[1].([]value)))
			for k, ix := range a[1].([]value) {
				index[k] = ix.(int)
			}
			return reflectFieldByIndex(fr, a[0], index)
		},
		// reflect.Value.MapRange / *MapIter: the iteration order is a schedule choice when the
		// caller is a zog package (like `range` over a map), the sorted order otherwise
		"(reflect.Value).MapRange": func(fr *frame, a []value) value {
			mt, ok := rV2T(a[0]).t.Underlying().(*types.Map)
			m, ok2 := rV2V(a[0]).(map[value]value)
			if !ok || !ok2 {
				panic(pathAbort{"unsupported: reflect.Value.MapRange over this kind of map"})
			}
			sched := fr.caller != nil && isZogPkg(fnPkgPath(fr.caller.fn))
			keys := permute(sortedKeys(m), sched)
			it := &mapIterState{kt: mt.Key(), et: mt.Elem(), m: m, keys: keys, idx: -1}
			var cell value = structure{nativeBox{it}}
			return &cell
		},
		"(*reflect.MapIter).Next": func(fr *frame, a []value) value {
			it := (*a[0].(*value)).(structure)[0].(nativeBox).v.(*mapIterState)
			it.idx++
			return it.idx < len(it.keys)
		},
		"(*reflect.MapIter).Key": func(fr *frame, a []value) value {
			it := (*a[0].(*value)).(structure)[0].(nativeBox).v.(*mapIterState)
			return makeReflectValue(it.kt, it.keys[it.idx])
		},
		"(*reflect.MapIter).Value": func(fr *frame, a []value) value {
			it := (*a[0].(*value)).(structure)[0].(nativeBox).v.(*mapIterState)
			return makeReflectValue(it.et, it.m[it.keys[it.idx]])
		},
		"(reflect.Value).CanInt": func(fr *frame, a []value) value {
			switch reflectKind(rV2T(a[0]).t) {
			case reflect.Int, reflect.Int8, reflect.Int16, reflect.Int32, reflect.Int64:
				return true
			}
			return false
		},
		"(reflect.Value).CanUint": func(fr *frame, a []value) value {
			switch reflectKind(rV2T(a[0]).t) {
			case reflect.Uint, reflect.Uint8, reflect.Uint16, reflect.Uint32, reflect.Uint64, reflect.Uintptr:
				return true
			}
			return false
		},
		"(reflect.Value).CanFloat": func(fr *frame, a []value) value {
			k := reflectKind(rV2T(a[0]).t)
			return k == reflect.Float32 || k == reflect.Float64
		},
		"(reflect.Value).CanComplex": func(fr *frame, a []value) value {
			k := reflectKind(rV2T(a[0]).t)
			return k == reflect.Complex64 || k == reflect.Complex128
		},
		"(reflect.Value).FieldByIndexErr": func(fr *frame, a []value) (res value) {
			index := make([]int, len(a[1].([]value)))
			for k, ix := range a[1].([]value) {
				index[k] = ix.(int)
			}
			defer func() {
				if r := recover(); r != nil {
					if tp, ok := r.(targetPanic); ok {
						if it, ok := tp.v.(iface); ok {
							if msg, _ := it.v.(string); strings.Contains(msg, "nil pointer to embedded struct") {
								res = tuple{structure{rtype{nil}, nil, (*value)(nil), false}, errVal("reflect: indirection through nil pointer to embedded struct field")}
								return
							}
						}
					}
					panic(r)
				}
			}()
			return tuple{reflectFieldByIndex(fr, a[0], index), iface{}}
		},
		"(reflect.Value).Slice": func(fr *frame, a []value) value {
			x := rV2V(a[0]).([]value)
			return makeReflectValue(rV2T(a[0]).t, x[a[1].(int):a[2].(int)])
		},
		"(reflect.Value).SetLen": func(fr *frame, a []value) value {
			p := rV2A(a[0])
			*p = (*p).([]value)[:a[1].(int)]
			return nil
		},
		"(reflect.Value).UnsafePointer": func(fr *frame, a []value) value { return ext۰reflect۰Value۰Pointer(fr, a) },
		"reflect.Append": func(fr *frame, a []value) value {
			x := rV2V(a[0]).([]value)
			out := append([]value{}, x...)
			for _, e := range a[1].([]value) {
				out = append(out, copyVal(rV2V(e)))
			}
			return makeReflectValue(rV2T(a[0]).t, out)
		},
		"reflect.AppendSlice": func(fr *frame, a []value) value {
			x := rV2V(a[0]).([]value)
			out := append([]value{}, x...)
			for _, e := range rV2V(a[1]).([]value) {
				out = append(out, copyVal(e))
			}
			return makeReflectValue(rV2T(a[0]).t, out)
		},
		"reflect.Copy": func(fr *frame, a []value) value {
			dst, src := rV2V(a[0]).([]value), rV2V(a[1]).([]value)
			n := 0
			for n < len(dst) && n < len(src) {
				dst[n] = copyVal(src[n])
				n++
			}
			return n
		},
		"reflect.Indirect": func(fr *frame, a []value) value {
			if _, ok := rV2T(a[0]).t.Underlying().(*types.Pointer); ok {
				return ext۰reflect۰Value۰Elem(fr, a)
			}
			return a[0]
		},
		"reflect.PointerTo": func(fr *frame, a []value) value {
			return makeReflectType(rtype{types.NewPointer(a[0].(iface).v.(rtype).t)})
		},
		"reflect.PtrTo": func(fr *frame, a []value) value {
			return makeReflectType(rtype{types.NewPointer(a[0].(iface).v.(rtype).t)})
		},
		"reflect.MakeMap": func(fr *frame, a []value) value {
			t := a[0].(iface).v.(rtype).t
			return makeReflectValue(t, makeMap(t.Underlying().(*types.Map).Key(), 0))
		},
		"reflect.MakeMapWithSize": func(fr *frame, a []value) value {
			t := a[0].(iface).v.(rtype).t
			return makeReflectValue(t, makeMap(t.Underlying().(*types.Map).Key(), 0))
		},
		"(reflect.Value).SetMapIndex": func(fr *frame, a []value) value {
			switch m := rV2V(a[0]).(type) {
			case map[value]value:
				if rV2T(a[2]).t == nil {
					delete(m, rV2V(a[1]))
				} else {
					m[rV2V(a[1])] = copyVal(rV2V(a[2]))
				}
				return nil
			}
			panic(pathAbort{"unsupported: reflect SetMapIndex on a non-builtin map"})
		},
	} {
		if f != nil {
			externals[k] = f
		}
	}
	_ = reflect.Int
	_ = fmt.Sprint
}

func init() {
	externals["(reflect.rtype).FieldByIndex"] = func(fr *frame, a []value) value {
		t := a[0].(rtype).t
		var f *types.Var
		var tag string
		for _, ix := range a[1].([]value) {
			st, ok := t.Underlying().(*types.Struct)
			if !ok {
				if pt, ok2 := t.Underlying().(*types.Pointer); ok2 {
					st, ok = pt.Elem().Underlying().(*types.Struct)
				}
				if !ok {
					panic(rtErr(fr, "reflect: Field index out of bounds"))
				}
			}
			i := ix.(int)
			if i < 0 || i >= st.NumFields() {
				panic(rtErr(fr, "reflect: Field index out of bounds"))
			}
			f, tag = st.Field(i), st.Tag(i)
			t = f.Type()
		}
		sfT := fr.i.prog.ImportedPackage("reflect").Type("StructField").Type()
		z := zero(sfT).(structure)
		if f != nil {
			z[0] = f.Name()
			z[2] = makeReflectType(rtype{f.Type()})
			z[3] = tag
			z[5] = append([]value{}, a[1].([]value)...)
		}
		return z
	}
}

type mapIterState struct {
	kt, et types.Type
	m      map[value]value
	keys   []value
	idx    int
}
