package main

import (
	"encoding/json"
	"fmt"
	"os"
	"path/filepath"
	"sort"
	"strings"

	"golang.org/x/tools/go/packages"
	"golang.org/x/tools/go/ssa"
	"golang.org/x/tools/go/ssa/ssautil"
)

const hPkgPath = "github.com/Oudwins/zog/zzverif/h"

// The registered checks always use /repo and /verif. For my own background explorations
// (vp run --with-repo) the locations can be redirected with GOSYM_REPO / GOSYM_VERIF.
var (
	repoDir    = envOr("GOSYM_REPO", "/repo")
	verifDir   = envOr("GOSYM_VERIF", "/verif")
	harnessDir = verifDir + "/harness"
	workDir    = verifDir + "/.work"
)

func envOr(k, d string) string {
	if v := os.Getenv(k); v != "" {
		return v
	}
	return d
}

// overlayFiles maps virtual paths under /repo/zzverif to the harness sources in /verif/harness.
func overlayFiles() map[string]string {
	out := map[string]string{}
	filepath.Walk(harnessDir, func(p string, info os.FileInfo, err error) error {
		if err != nil || info.IsDir() || !strings.HasSuffix(p, ".go") {
			return nil
		}
		rel, _ := filepath.Rel(harnessDir, p)
		// harness/zzverif/x.go -> /repo/zzverif/x.go ; harness/h/x.go -> /repo/zzverif/h/x.go
		switch {
		case strings.HasPrefix(rel, "zzverif/"):
			out[filepath.Join(repoDir, rel)] = p
		case strings.HasPrefix(rel, "h/"):
			out[filepath.Join(repoDir, "zzverif", rel)] = p
		}
		return nil
	})
	return out
}

func goEnv() []string {
	env := os.Environ()
	env = append(env, "GOFLAGS=-mod=mod", "GOPROXY=off", "GOSUMDB=off", "GOTOOLCHAIN=local")
	return env
}

// loadProgram type-checks /repo's current working tree plus the overlaid harness packages
// and builds SSA for everything (generics instantiated).
func loadProgram(withTests bool) (*ssa.Program, *ssa.Package, error) {
	ov := map[string][]byte{}
	for virt, real := range overlayFiles() {
		if strings.HasSuffix(virt, "_test.go") {
			continue
		}
		b, err := os.ReadFile(real)
		if err != nil {
			return nil, nil, err
		}
		ov[virt] = b
	}
	cfg := &packages.Config{
		Mode:    packages.LoadAllSyntax,
		Dir:     repoDir,
		Overlay: ov,
		Env:     goEnv(),
	}
	pkgs, err := packages.Load(cfg, "./zzverif/h")
	if err != nil {
		return nil, nil, err
	}
	if n := packages.PrintErrors(pkgs); n > 0 {
		return nil, nil, fmt.Errorf("%d package errors", n)
	}
	prog, spkgs := ssautil.AllPackages(pkgs, ssa.InstantiateGenerics)
	prog.Build()
	var h *ssa.Package
	for _, sp := range spkgs {
		if sp != nil && sp.Pkg.Path() == hPkgPath {
			h = sp
		}
	}
	if h == nil {
		return nil, nil, fmt.Errorf("harness package %s not loaded", hPkgPath)
	}
	return prog, h, nil
}

// writeOverlayJSON writes the -overlay file for native replays (go test -overlay).
func writeOverlayJSON(extra map[string]string) (string, error) {
	os.MkdirAll(workDir, 0o755)
	rep := map[string]string{}
	for virt, real := range overlayFiles() {
		rep[virt] = real
	}
	for k, v := range extra {
		rep[k] = v
	}
	keys := make([]string, 0, len(rep))
	for k := range rep {
		keys = append(keys, k)
	}
	sort.Strings(keys)
	b, _ := json.MarshalIndent(map[string]any{"Replace": rep}, "", " ")
	f, err := os.CreateTemp(workDir, "overlay-*.json")
	if err != nil {
		return "", err
	}
	f.Write(b)
	f.Close()
	return f.Name(), nil
}
