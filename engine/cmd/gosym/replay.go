package main

import (
	"encoding/json"
	"fmt"
	"os"
	"os/exec"
	"path/filepath"
	"strings"
	"time"
)

type replayRun struct {
	Prop   string            `json:"prop"`
	Job    string            `json:"job"`
	Mode   string            `json:"mode"` // violation | conform
	Label  string            `json:"label,omitempty"`
	Script map[string]string `json:"script"`
	Trace  []string          `json:"trace"`
	Sched  []string          `json:"sched,omitempty"`
	Tier   int               `json:"tier"`
	Tries  int               `json:"tries"`
}

type replayOut struct {
	Matched bool     `json:"matched"`
	Tries   int      `json:"tries"`
	Failed  string   `json:"failed,omitempty"`
	Panic   string   `json:"panic,omitempty"`
	Trace   []string `json:"trace,omitempty"`
}

// nativeReplay runs the harness natively (real build of /repo's working tree) under the
// recorded scripts: one `go test -overlay` for all runs.
func nativeReplay(runs []replayRun) ([]replayOut, error) {
	for i := range runs {
		if runs[i].Tries == 0 {
			runs[i].Tries = 1
			for _, s := range runs[i].Sched {
				if strings.HasPrefix(s, "maporder:") || strings.HasPrefix(s, "pool-get:") {
					runs[i].Tries = 400
				}
			}
		}
	}
	os.MkdirAll(workDir, 0o755)
	inF, err := os.CreateTemp(workDir, "replay-in-*.json")
	if err != nil {
		return nil, err
	}
	b, _ := json.Marshal(runs)
	inF.Write(b)
	inF.Close()
	outName := strings.Replace(inF.Name(), "replay-in-", "replay-out-", 1)
	ovName, err := writeOverlayJSON(nil)
	if err != nil {
		return nil, err
	}
	defer os.Remove(inF.Name())
	defer os.Remove(outName)
	defer os.Remove(ovName)
	// the harness package directory is virtual (overlay), so the test binary is built with
	// `go test -c` and run directly. C08 replays run real goroutines under the race detector.
	race := len(runs) > 0 && runs[0].Prop == "C08"
	binName := strings.Replace(inF.Name(), "replay-in-", "replay-bin-", 1)
	defer os.Remove(binName)
	t0 := time.Now()
	args := []string{"test", "-c", "-vet=off", "-overlay", ovName, "-o", binName}
	if race {
		args = append(args, "-race")
	}
	args = append(args, "./zzverif/h")
	bc := exec.Command("go", args...)
	bc.Dir = repoDir
	bc.Env = goEnv()
	if bout, err := bc.CombinedOutput(); err != nil {
		return nil, fmt.Errorf("building the native replay binary failed: %v: %s", err, tail(string(bout), 1500))
	}
	runBin := func(in, out string) (string, error) {
		cmd := exec.Command(binName, "-test.run", "^TestZZReplay$", "-test.timeout", "20m")
		cmd.Dir = workDir
		cmd.Env = append(goEnv(), "ZZVERIF_REPLAY_IN="+in, "ZZVERIF_REPLAY_OUT="+out)
		b, err := cmd.CombinedOutput()
		return string(b), err
	}
	if race {
		// one process per run, so that a race report can be attributed to it
		var outs []replayOut
		for i := range runs {
			one, _ := json.Marshal(runs[i : i+1])
			os.WriteFile(inF.Name(), one, 0o644)
			os.Remove(outName)
			text, _ := runBin(inF.Name(), outName)
			var o []replayOut
			if ob, err := os.ReadFile(outName); err == nil {
				json.Unmarshal(ob, &o)
			}
			if len(o) != 1 {
				o = []replayOut{{Panic: "replay process failed: " + tail(text, 300)}}
			}
			if strings.Contains(text, "WARNING: DATA RACE") {
				if runs[i].Mode == "violation" {
					o[0].Matched = true
				} else {
					o[0].Matched = false
				}
				o[0].Panic = "DATA RACE reported by the race detector: " + raceSummary(text)
			}
			outs = append(outs, o[0])
		}
		return outs, nil
	}
	outb, err := runBin(inF.Name(), outName)
	ob, rerr := os.ReadFile(outName)
	if rerr != nil {
		return nil, fmt.Errorf("go test failed (%v) after %v: %s", err, time.Since(t0), tail(string(outb), 1500))
	}
	var outs []replayOut
	if e := json.Unmarshal(ob, &outs); e != nil {
		return nil, e
	}
	if len(outs) != len(runs) {
		return outs, fmt.Errorf("replay returned %d results for %d runs: %s", len(outs), len(runs), tail(string(outb), 800))
	}
	return outs, nil
}

func raceSummary(text string) string {
	var keep []string
	for _, l := range strings.Split(text, "\n") {
		t := strings.TrimSpace(l)
		if strings.HasPrefix(t, "github.com/Oudwins/zog") && len(keep) < 4 {
			keep = append(keep, t)
		}
	}
	return strings.Join(keep, " | ")
}

func tail(s string, n int) string {
	if len(s) > n {
		return s[len(s)-n:]
	}
	return s
}

func runReplayFile(path string) int {
	b, err := os.ReadFile(path)
	if err != nil {
		fmt.Fprintln(os.Stderr, err)
		return 2
	}
	var rec struct {
		Property string            `json:"property"`
		Job      string            `json:"job"`
		Label    string            `json:"label"`
		Script   map[string]string `json:"script"`
		Trace    []string          `json:"trace"`
		Sched    []string          `json:"sched"`
		Tier     string            `json:"tier"`
	}
	if err := json.Unmarshal(b, &rec); err != nil {
		fmt.Fprintln(os.Stderr, err)
		return 2
	}
	outs, err := nativeReplay([]replayRun{{Prop: rec.Property, Job: rec.Job, Mode: "violation", Label: rec.Label, Script: rec.Script, Trace: rec.Trace, Sched: rec.Sched, Tier: tierNum(rec.Tier)}})
	if err != nil {
		fmt.Fprintln(os.Stderr, err)
		return 2
	}
	o := outs[0]
	fmt.Printf("replay %s: property=%s job=%s label=%s inputs=%v\n", filepath.Base(path), rec.Property, rec.Job, rec.Label, rec.Script)
	fmt.Printf("native run: failed=%q panic=%q tries=%d trace=%v\n", o.Failed, o.Panic, o.Tries, o.Trace)
	if o.Matched {
		fmt.Printf("VIOLATION property=%s replay=%s\n", rec.Property, path)
		return 1
	}
	fmt.Println("not reproduced on the current tree")
	return 0
}
