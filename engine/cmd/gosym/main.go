// gosym: solver-based checking of the real zog code.
//
//	gosym check <PROP> <quick|thorough>   run one property check (driver; spawns workers)
//	gosym worker <PROP> <tier>            internal: explore jobs read from stdin
//	gosym replay <file>                   replay one recorded counterexample natively
//	gosym jobs <PROP> <tier>              list the jobs of a property
package main

import (
	"bufio"
	"encoding/json"
	"fmt"
	"os"
	"strconv"
	"strings"
	"time"

	"golang.org/x/tools/go/ssa"
	"gosym/symterp"
)

func tierNum(s string) int {
	if s == "thorough" || s == "1" {
		return 1
	}
	return 0
}

func main() {
	if len(os.Args) < 2 {
		fmt.Fprintln(os.Stderr, "usage: gosym check|worker|replay|jobs ...")
		os.Exit(2)
	}
	switch os.Args[1] {
	case "check":
		tier := "quick"
		if len(os.Args) > 3 {
			tier = os.Args[3]
		}
		if t := os.Getenv("VERIF_TIER"); t == "quick" || t == "thorough" {
			if len(os.Args) <= 3 {
				tier = t
			}
		}
		os.Exit(runCheck(os.Args[2], tier))
	case "worker":
		runWorker(os.Args[2], tierNum(os.Args[3]))
	case "jobs":
		prog, h, err := loadProgram(false)
		if err != nil {
			fmt.Fprintln(os.Stderr, err)
			os.Exit(2)
		}
		jobs, err := listJobs(prog, h, os.Args[2], tierNum(os.Args[3]))
		if err != nil {
			fmt.Fprintln(os.Stderr, err)
			os.Exit(2)
		}
		for _, j := range jobs {
			fmt.Println(j)
		}
	case "run": // debug: explore one job in-process and print the result
		prog, h, err := loadProgram(false)
		if err != nil {
			fmt.Fprintln(os.Stderr, err)
			os.Exit(2)
		}
		tier := 0
		if len(os.Args) > 4 {
			tier = tierNum(os.Args[4])
		}
		symterp.Tier = tier
		m := symterp.NewMachine(prog)
		res := m.Explore(h, h.Func(os.Args[2]+"_Run"), symterp.JobArgs(os.Args[3]), os.Args[3], symterp.ExploreOpts{MaxViolPerLabel: 3, MaxSamples: 2, MaxPaths: 100000, TimeBudget: 300 * time.Second})
		res.Funcs = nil
		b, _ := json.MarshalIndent(res, "", " ")
		fmt.Println(string(b))
	case "replay":
		os.Exit(runReplayFile(os.Args[2]))
	default:
		fmt.Fprintln(os.Stderr, "unknown command", os.Args[1])
		os.Exit(2)
	}
}

func listJobs(prog *ssa.Program, h *ssa.Package, prop string, tier int) ([]string, error) {
	fn := h.Func(prop + "_Jobs")
	if fn == nil {
		return nil, fmt.Errorf("harness function %s_Jobs not found", prop)
	}
	symterp.Tier = tier
	m := symterp.NewMachine(prog)
	r, err := m.RunConcrete(h, fn, nil)
	if err != nil {
		return nil, err
	}
	return symterp.StringsOf(r), nil
}

type workerMsg struct {
	Jobs   []string           `json:"jobs,omitempty"`
	Result *symterp.JobResult `json:"result,omitempty"`
	Error  string             `json:"error,omitempty"`
	LoadMS int64              `json:"load_ms,omitempty"`
	MustCover []string        `json:"must_cover,omitempty"`
}

func runWorker(prop string, tier int) {
	enc := json.NewEncoder(os.Stdout)
	t0 := time.Now()
	prog, h, err := loadProgram(false)
	if err != nil {
		enc.Encode(workerMsg{Error: err.Error()})
		os.Exit(2)
	}
	jobs, err := listJobs(prog, h, prop, tier)
	if err != nil {
		enc.Encode(workerMsg{Error: err.Error()})
		os.Exit(2)
	}
	var must []string
	if cf := h.Func(prop + "_Covers"); cf != nil {
		if r, err := symterp.NewMachine(prog).RunConcrete(h, cf, nil); err == nil {
			must = symterp.StringsOf(r)
		}
	}
	enc.Encode(workerMsg{Jobs: jobs, LoadMS: time.Since(t0).Milliseconds(), MustCover: must})
	run := h.Func(prop + "_Run")
	if run == nil {
		enc.Encode(workerMsg{Error: "harness function " + prop + "_Run not found"})
		os.Exit(2)
	}
	symterp.Tier = tier
	m := symterp.NewMachine(prog)
	m.SolverTimeoutMS = 4000 // incremental queries; unknown falls back to one-shot solvers (30 s each)
	opts := symterp.ExploreOpts{MaxViolPerLabel: 2, MaxSamples: 3, MaxPaths: 30000, TimeBudget: 150 * time.Second}
	if tier == 1 {
		opts.MaxPaths = 400000
		opts.TimeBudget = 30 * time.Minute
		m.SolverTimeoutMS = 20000
		opts.MaxSamples = 8
		symterp.SecondOpinion = 3
	}
	if v := os.Getenv("GOSYM_MAXPATHS"); v != "" {
		opts.MaxPaths, _ = strconv.Atoi(v)
	}
	if v := os.Getenv("GOSYM_JOB_SECONDS"); v != "" {
		n, _ := strconv.Atoi(v)
		opts.TimeBudget = time.Duration(n) * time.Second
	}
	sc := bufio.NewScanner(os.Stdin)
	for sc.Scan() {
		job := strings.TrimSpace(sc.Text())
		if job == "" {
			continue
		}
		res := m.Explore(h, run, symterp.JobArgs(job), job, opts)
		enc.Encode(workerMsg{Result: res})
	}
}
