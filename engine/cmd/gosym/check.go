package main

import (
	"bufio"
	"encoding/json"
	"fmt"
	"io"
	"os"
	"os/exec"
	"path/filepath"
	"sort"
	"strconv"
	"strings"
	"sync"
	"time"

	"gosym/symterp"
)

type worker struct {
	cmd *exec.Cmd
	in  io.WriteCloser
	out *bufio.Reader
}

func startWorker(prop, tier string) (*worker, error) {
	self, _ := os.Executable()
	cmd := exec.Command(self, "worker", prop, tier)
	cmd.Stderr = os.Stderr
	cmd.Env = goEnv()
	in, _ := cmd.StdinPipe()
	out, _ := cmd.StdoutPipe()
	if err := cmd.Start(); err != nil {
		return nil, err
	}
	return &worker{cmd, in, bufio.NewReaderSize(out, 1<<22)}, nil
}

func (w *worker) read() (*workerMsg, error) {
	line, err := w.out.ReadBytes('\n')
	if err != nil {
		return nil, err
	}
	var m workerMsg
	if err := json.Unmarshal(line, &m); err != nil {
		return nil, fmt.Errorf("bad worker message: %v: %.200s", err, line)
	}
	if m.Error != "" {
		return nil, fmt.Errorf("worker: %s", m.Error)
	}
	return &m, nil
}

type knownFinding struct {
	Property string `json:"property"`
	Job      string `json:"job"`   // glob
	Label    string `json:"label"` // glob
	What     string `json:"what"`
}

type knownFile struct {
	Findings []knownFinding      `json:"findings"`
	Fixed    []map[string]string `json:"fixed"`
}

func loadKnown() knownFile {
	var k knownFile
	b, err := os.ReadFile(filepath.Join(verifDir, "known_findings.json"))
	if err == nil {
		json.Unmarshal(b, &k)
	}
	return k
}

func globMatch(pat, s string) bool {
	if pat == "" || pat == "*" {
		return true
	}
	// simple glob: * matches any run of characters
	parts := strings.Split(pat, "*")
	if len(parts) == 1 {
		return pat == s
	}
	if !strings.HasPrefix(s, parts[0]) {
		return false
	}
	s = s[len(parts[0]):]
	for i := 1; i < len(parts)-1; i++ {
		j := strings.Index(s, parts[i])
		if j < 0 {
			return false
		}
		s = s[j+len(parts[i]):]
	}
	return strings.HasSuffix(s, parts[len(parts)-1])
}

func runCheck(prop, tier string) int {
	t0 := time.Now()
	seed := 0
	if s := os.Getenv("VERIF_SEED"); s != "" {
		seed, _ = strconv.Atoi(s)
	}
	os.MkdirAll(workDir, 0o755)
	os.MkdirAll(filepath.Join(verifDir, "evidence"), 0o755)
	os.MkdirAll(filepath.Join(verifDir, "replays"), 0o755)

	first, err := startWorker(prop, tier)
	if err != nil {
		return fatal(prop, tier, seed, t0, err)
	}
	msg, err := first.read()
	if err != nil {
		return fatal(prop, tier, seed, t0, err)
	}
	jobs := msg.Jobs
	if len(jobs) == 0 {
		return fatal(prop, tier, seed, t0, fmt.Errorf("no jobs for %s", prop))
	}
	nw := 16
	if v := os.Getenv("GOSYM_WORKERS"); v != "" {
		nw, _ = strconv.Atoi(v)
	}
	if nw > len(jobs) {
		nw = len(jobs)
	}
	jobCh := make(chan string, len(jobs))
	for _, j := range jobs {
		jobCh <- j
	}
	close(jobCh)
	var mu sync.Mutex
	var results []*symterp.JobResult
	var werrs []string
	var wg sync.WaitGroup
	serve := func(w *worker, ready bool) {
		defer wg.Done()
		if !ready {
			if _, err := w.read(); err != nil {
				mu.Lock()
				werrs = append(werrs, err.Error())
				mu.Unlock()
				return
			}
		}
		for j := range jobCh {
			fmt.Fprintln(w.in, j)
			m, err := w.read()
			mu.Lock()
			if err != nil {
				werrs = append(werrs, fmt.Sprintf("job %s: %v", j, err))
				mu.Unlock()
				return
			}
			results = append(results, m.Result)
			mu.Unlock()
		}
		w.in.Close()
		w.cmd.Wait()
	}
	wg.Add(1)
	go serve(first, true)
	for i := 1; i < nw; i++ {
		w, err := startWorker(prop, tier)
		if err != nil {
			werrs = append(werrs, err.Error())
			continue
		}
		wg.Add(1)
		go serve(w, false)
	}
	wg.Wait()
	sort.Slice(results, func(i, j int) bool { return results[i].Job < results[j].Job })

	// ---- aggregate
	ev := newEvidence(prop, tier, seed)
	ev.absorb(jobs, results, werrs, msg.MustCover)

	// ---- native replay of candidates + conformance samples
	var runs []replayRun
	for _, r := range results {
		for _, v := range r.Violations {
			runs = append(runs, replayRun{Prop: prop, Job: v.Job, Mode: "violation", Label: v.Label, Script: v.Script, Trace: v.Trace, Sched: v.Sched, Tier: tierNum(tier)})
		}
	}
	nviol := len(runs)
	for _, r := range results {
		for _, s := range r.Samples {
			runs = append(runs, replayRun{Prop: prop, Job: s.Job, Mode: "conform", Script: s.Script, Trace: s.Trace, Sched: s.Sched, Tier: tierNum(tier)})
		}
	}
	var outs []replayOut
	if len(runs) > 0 {
		outs, err = nativeReplay(runs)
		if err != nil {
			ev.Inconclusive = append(ev.Inconclusive, "native replay failed: "+err.Error())
			fmt.Println("REPLAY-ERROR:", err)
		}
	}
	known := loadKnown()
	exit := 0
	knownPrinted := map[int]bool{}
	nrep := 0
	for i := 0; i < nviol && i < len(outs); i++ {
		ru, o := runs[i], outs[i]
		rec := map[string]any{"property": prop, "job": ru.Job, "label": ru.Label, "script": ru.Script, "trace": ru.Trace,
			"sched": ru.Sched, "tier": tier, "native": o}
		if !o.Matched {
			ev.Unreproduced = append(ev.Unreproduced, rec)
			fmt.Printf("UNREPRODUCED candidate property=%s job=%s label=%s (native: failed=%q panic=%q)\n", prop, ru.Job, ru.Label, o.Failed, o.Panic)
			continue
		}
		nrep++
		matchedKnown := -1
		for k, f := range known.Findings {
			if f.Property == prop && globMatch(f.Job, ru.Job) && globMatch(f.Label, ru.Label) {
				matchedKnown = k
				break
			}
		}
		if matchedKnown >= 0 {
			if !knownPrinted[matchedKnown] {
				knownPrinted[matchedKnown] = true
				fmt.Printf("KNOWN-FINDING: property=%s %s\n", prop, known.Findings[matchedKnown].What)
			}
			ev.KnownMatched++
			continue
		}
		path := filepath.Join(verifDir, "replays", fmt.Sprintf("%s-%d.json", prop, ev.Violations))
		b, _ := json.MarshalIndent(rec, "", " ")
		os.WriteFile(path, b, 0o644)
		fmt.Printf("VIOLATION property=%s replay=%s\n", prop, path)
		fmt.Printf("  job=%s label=%s script=%v\n", ru.Job, ru.Label, ru.Script)
		ev.Violations++
		ev.ViolationSamples = append(ev.ViolationSamples, rec)
		exit = 1
	}
	for i := nviol; i < len(outs); i++ {
		if outs[i].Matched {
			ev.Conformed++
		} else {
			ev.ConformMismatch = append(ev.ConformMismatch, map[string]any{"job": runs[i].Job, "script": runs[i].Script, "engine_trace": runs[i].Trace, "native_trace": outs[i].Trace, "sched": runs[i].Sched, "native_panic": outs[i].Panic})
		}
	}
	ev.Reproduced = nrep
	ev.write(time.Since(t0))
	fmt.Printf("%s %s: jobs=%d paths=%d queries=%d solver=%.1fs wall=%.1fs candidates=%d reproduced=%d known=%d violations=%d conformed=%d/%d inconclusive=%d\n",
		prop, tier, len(results), ev.Paths, ev.Queries, float64(ev.SolverMS)/1000, time.Since(t0).Seconds(), nviol, nrep, ev.KnownMatched, ev.Violations,
		ev.Conformed, len(outs)-nviol, len(ev.Inconclusive))
	for _, m := range ev.ConformMismatch {
		fmt.Printf("CONFORMANCE-MISMATCH job=%v\n  engine=%v\n  native=%v\n", m["job"], m["engine_trace"], m["native_trace"])
	}
	for _, v := range ev.Vacuous {
		fmt.Println("VACUOUS", v)
	}
	if len(ev.Inconclusive) > 0 {
		n := len(ev.Inconclusive)
		if n > 8 {
			n = 8
		}
		for _, s := range ev.Inconclusive[:n] {
			fmt.Println("INCONCLUSIVE", s)
		}
	}
	return exit
}

func fatal(prop, tier string, seed int, t0 time.Time, err error) int {
	fmt.Println("CHECK-ERROR:", err)
	ev := newEvidence(prop, tier, seed)
	ev.Inconclusive = append(ev.Inconclusive, "check could not run: "+err.Error())
	ev.write(time.Since(t0))
	return 2
}
