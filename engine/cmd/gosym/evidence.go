package main

import (
	"encoding/json"
	"fmt"
	"os"
	"path/filepath"
	"sort"
	"time"

	"gosym/symterp"
)

type evidence struct {
	Prop, Tier string
	Seed       int

	Jobs, Paths, Decisions, Queries int
	SecondOpinions, Disagreements, SecondUnknown int
	SolverMS                        int64
	Covers                          map[string]int
	Asserts                         map[string]int
	Candidates                      map[string]int
	Inconclusive                    []string
	AssumedAway                     int
	Funcs                           map[string]bool
	Approx                          map[string]int
	Samples                         []any
	Vacuous                         []string
	JobTable                        []map[string]any

	Unreproduced     []map[string]any
	ViolationSamples []map[string]any
	ConformMismatch  []map[string]any
	Violations       int
	KnownMatched     int
	Reproduced       int
	Conformed        int
}

func newEvidence(prop, tier string, seed int) *evidence {
	return &evidence{Prop: prop, Tier: tier, Seed: seed, Covers: map[string]int{}, Asserts: map[string]int{},
		Candidates: map[string]int{}, Funcs: map[string]bool{}, Approx: map[string]int{}}
}

func (ev *evidence) absorb(jobs []string, results []*symterp.JobResult, werrs []string, must []string) {
	ev.Jobs = len(results)
	done := map[string]bool{}
	for _, r := range results {
		done[r.Job] = true
		ev.Paths += r.Paths
		ev.Decisions += r.Decisions
		ev.Queries += r.Queries
		ev.SolverMS += r.SolverMS
		ev.AssumedAway += r.AssumedAway
		ev.SecondOpinions += r.SecondOpinions
		ev.Disagreements += r.SolverDisagreements
		ev.SecondUnknown += r.SecondOpinionUnknown
		for k, v := range r.Covers {
			ev.Covers[k] += v
		}
		for k, v := range r.Asserts {
			ev.Asserts[k] += v
		}
		for k, v := range r.ViolCount {
			ev.Candidates[k] += v
		}
		for k, v := range r.Approx {
			ev.Approx[k] += v
		}
		for _, f := range r.Funcs {
			ev.Funcs[f] = true
		}
		ev.Inconclusive = append(ev.Inconclusive, r.Inconclusive...)
		for i, s := range r.Samples {
			if i < 1 && len(ev.Samples) < 12 {
				ev.Samples = append(ev.Samples, map[string]any{"job": s.Job, "inputs": s.Script, "path_trace": s.Trace, "schedule": s.Sched})
			}
		}
		ev.JobTable = append(ev.JobTable, map[string]any{"job": r.Job, "paths": r.Paths, "queries": r.Queries, "solver_ms": r.SolverMS, "wall_ms": r.WallMS, "truncated": r.Truncated})
	}
	for _, j := range jobs {
		if !done[j] {
			ev.Inconclusive = append(ev.Inconclusive, "job not completed: "+j)
		}
	}
	for _, e := range werrs {
		ev.Inconclusive = append(ev.Inconclusive, "worker error: "+e)
	}
	for _, c := range must {
		if ev.Covers[c] == 0 {
			ev.Vacuous = append(ev.Vacuous, fmt.Sprintf("property=%s cover=%s never reached", ev.Prop, c))
			ev.Inconclusive = append(ev.Inconclusive, "vacuity: mandatory cover never reached: "+c)
		}
	}
}

func keysOf(m map[string]bool) []string {
	out := make([]string, 0, len(m))
	for k := range m {
		out = append(out, k)
	}
	sort.Strings(out)
	return out
}

func (ev *evidence) write(wall time.Duration) {
	paths := ev.Paths
	if paths < 1 {
		paths = 1
	}
	dec := ev.Decisions
	if dec < 1 {
		dec = 1
	}
	samples := ev.Samples
	if len(samples) == 0 {
		samples = []any{"no path completed"}
	}
	expl := fmt.Sprintf("bounded symbolic execution of /repo's go/ssa (regenerated this run) from %d harness jobs: %d paths, %d branch/choice decisions, %d solver queries (z3, %.1fs); every assertion on every path was decided by the solver for all values of the symbolic inputs within the stated bounds; %d native replays of sampled paths agreed with the engine",
		ev.Jobs, ev.Paths, ev.Decisions, ev.Queries, float64(ev.SolverMS)/1000, ev.Conformed)
	if len(ev.Inconclusive) > 0 {
		expl += fmt.Sprintf("; NOT complete: %d inconclusive items (see coverage.inconclusive)", len(ev.Inconclusive))
	}
	cov := map[string]any{
		"states":                        paths,
		"transitions":                   dec,
		"traces_validated_against_impl": ev.Conformed + ev.Reproduced,
		"samples":                       samples,
		"explanation":                   expl,
		"exhaustive":                    false,
		"jobs":                          ev.Jobs,
		"queries":                       ev.Queries,
		"solver_s":                      float64(ev.SolverMS) / 1000,
		"assertions_checked":            ev.Asserts,
		"covers":                        ev.Covers,
		"candidates_by_label":           ev.Candidates,
		"reproduced_natively":           ev.Reproduced,
		"known_findings_matched":        ev.KnownMatched,
		"unreproduced":                  ev.Unreproduced,
		"violation_samples":             ev.ViolationSamples,
		"conformance_mismatches":        ev.ConformMismatch,
		"inconclusive":                  ev.Inconclusive,
		"assumed_away":                  ev.AssumedAway,
		"cross_solver":                  map[string]int{"assertions_rechecked_by_z3new_and_cvc5": ev.SecondOpinions, "disagreements": ev.Disagreements, "second_solver_unknown": ev.SecondUnknown},
		"vacuous":                       ev.Vacuous,
		"functions_encoded":             keysOf(ev.Funcs),
		"approximations":                ev.Approx,
		"job_table":                     ev.JobTable,
		"bounds":                        boundsNote(ev.Prop, ev.Tier),
	}
	out := map[string]any{
		"property_id": ev.Prop,
		"tier":        ev.Tier,
		"seed":        ev.Seed,
		"level":       levelOf(ev.Prop),
		"coverage":    cov,
		"assumptions": assumptionsNote(ev.Prop),
		"wall_s":      wall.Seconds(),
		"violations":  ev.Violations,
	}
	b, _ := json.MarshalIndent(out, "", " ")
	os.WriteFile(filepath.Join(verifDir, "evidence", ev.Prop+".json"), b, 0o644)
}

// boundsNote / assumptionsNote read the per-property statements kept next to the harnesses.
func boundsNote(prop, tier string) any {
	b, err := os.ReadFile(filepath.Join(harnessDir, "bounds.json"))
	if err != nil {
		return "see DESIGN.md"
	}
	var m map[string]map[string]any
	if json.Unmarshal(b, &m) != nil {
		return "see DESIGN.md"
	}
	if p, ok := m[prop]; ok {
		if v, ok := p[tier]; ok {
			return v
		}
		return p
	}
	return "see DESIGN.md"
}

func assumptionsNote(prop string) []string {
	base := []string{
		"go/packages + go/ssa (x/tools v0.29.0) build the SSA that is executed; the forked go/ssa/interp gives its dynamic semantics",
		"z3 4.8.12 decides every query; any solver error/unknown is reported as inconclusive, never as a pass",
		"heap, dynamic types, map key sets and slice lengths are concrete per path; scalars/bytes are symbolic",
		"violations are reported only after the solver's model reproduces against the real build (go test -overlay)",
	}
	b, err := os.ReadFile(filepath.Join(harnessDir, "bounds.json"))
	if err == nil {
		var m map[string]map[string]any
		if json.Unmarshal(b, &m) == nil {
			if p, ok := m[prop]; ok {
				if a, ok := p["assumptions"].([]any); ok {
					for _, x := range a {
						base = append(base, fmt.Sprint(x))
					}
				}
			}
		}
	}
	return base
}

// levelOf: C08 is a reduction (monitors + race-detector replay), claimed as "other".
func levelOf(prop string) string {
	if prop == "C08" {
		return "other"
	}
	return "model_checking"
}
